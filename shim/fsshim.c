/*
 * fsshim.so — LD_PRELOAD interposer used by the breadlog verification harness.
 *
 * It is loaded into the *breadlog* process only. It
 *   - traces the libc-level filesystem calls the process makes (BLSHIM_TRACE),
 *   - counts those that touch a path under one of the roots in BLSHIM_ROOTS
 *     (colon separated absolute paths): these are the "counted operations",
 *     numbered 1, 2, 3 … in the order they are issued,
 *   - executes a fault plan (BLSHIM_PLAN, directives separated by ';'):
 *        fail:K:ERRNO   counted op K is not performed, returns -1 / errno
 *        short:K        counted op K, if a write, writes only half its bytes
 *        kill:K         SIGKILL to the whole process immediately before op K
 *        wfail:K:ERRNO  persistent write failure: counted op K and every later counted write
 *                       (write/pwrite/writev) returns -1 / errno (a full or withdrawn device)
 *     With BLSHIM_STDIO=1 every write to descriptor 1 or 2 (a line of the subject's output) is a
 *     counted operation of kind "out" too, so that kill/sig directives can be placed between two
 *     lines of output; fail/short/wfail never apply to them.
 *        rfail:K:ERRNO  persistent rename failure: counted op K and every later counted rename fails
 *        sig:K:NUM      signal NUM delivered (to the thread about to issue op K, so that the
 *                       handler has run before the operation starts) immediately before op K
 *
 * Trace line (tab separated, one write(2) per line, raw syscall):
 *   seq  k  kind  fd  flags  ret  errno  inj  path  [path2]
 * k = counted index or 0 when the call is outside the roots.
 * kind ∈ open creat read write close fsync ftruncate rename unlink mkdir rmdir
 *        link symlink chmod utimens opendir stat copy
 *
 * No allocation, no stdio: everything goes through raw syscalls and fixed
 * buffers so that the shim can be used inside any thread of the subject.
 */
#define _GNU_SOURCE
#include <dirent.h>
#include <dlfcn.h>
#include <errno.h>
#include <fcntl.h>
#include <limits.h>
#include <signal.h>
#include <stdarg.h>
#include <stdint.h>
#include <stdlib.h>
#include <string.h>
#include <sys/stat.h>
#include <sys/syscall.h>
#include <sys/types.h>
#include <sys/uio.h>
#include <unistd.h>

#define MAX_ROOTS 8
#define MAX_PLAN 32
#define MAX_FD 4096
#define TRACE_FD 1000

enum { D_FAIL = 1, D_SHORT, D_KILL, D_SIG, D_WFAIL, D_RFAIL };
struct directive { int type; long k; int arg; };

static char roots[MAX_ROOTS][PATH_MAX];
static size_t root_len[MAX_ROOTS];
static int n_roots;
static struct directive plan[MAX_PLAN];
static int n_plan;
static long wfail_from; /* 0 = none */
static int wfail_errno;
static long rfail_from; /* 0 = none */
static int rfail_errno;
static int trace_fd = -1;
static long op_counter;  /* counted operations */
static long seq_counter; /* all traced calls */
static unsigned char tracked[MAX_FD];
static int initialised;
static int count_stdio;

/* ---------------------------------------------------------------- utils */

static size_t s_len(const char *s) { size_t n = 0; while (s[n]) n++; return n; }

static char *put_s(char *p, char *end, const char *s)
{
    while (*s && p < end) {
        char c = *s++;
        if (c == '\t' || c == '\n') c = '?';
        *p++ = c;
    }
    return p;
}

static char *put_l(char *p, char *end, long v)
{
    char tmp[24]; int n = 0; unsigned long u;
    if (v < 0) { if (p < end) *p++ = '-'; u = (unsigned long)(-v); } else u = (unsigned long)v;
    do { tmp[n++] = (char)('0' + u % 10); u /= 10; } while (u);
    while (n && p < end) *p++ = tmp[--n];
    return p;
}

static long parse_l(const char **s)
{
    long v = 0; int neg = 0;
    if (**s == '-') { neg = 1; (*s)++; }
    while (**s >= '0' && **s <= '9') { v = v * 10 + (**s - '0'); (*s)++; }
    return neg ? -v : v;
}

static int errno_by_name(const char *s, size_t n)
{
    static const struct { const char *n; int v; } tab[] = {
        {"EIO", EIO}, {"ENOSPC", ENOSPC}, {"EXDEV", EXDEV}, {"EACCES", EACCES},
        {"EPERM", EPERM}, {"ENOENT", ENOENT}, {"EMFILE", EMFILE}, {"EROFS", EROFS},
        {"EDQUOT", EDQUOT}, {"EINTR", EINTR}, {"EBUSY", EBUSY}, {"ENOMEM", ENOMEM},
        {"EEXIST", EEXIST}, {"EISDIR", EISDIR}, {"ENOTDIR", ENOTDIR}, {"EFBIG", EFBIG},
        {"ENOTEMPTY", ENOTEMPTY}, {"ETXTBSY", ETXTBSY},
        {"EINVAL", EINVAL}, {"ENOSYS", ENOSYS}, {"EOPNOTSUPP", EOPNOTSUPP}, {"EAGAIN", EAGAIN},
    };
    for (size_t i = 0; i < sizeof tab / sizeof tab[0]; i++)
        if (s_len(tab[i].n) == n && !strncmp(tab[i].n, s, n)) return tab[i].v;
    return EIO;
}

/* Lexically absolute, normalised path ("." and ".." folded, no symlink resolution). */
static void abs_path(int dirfd, const char *path, char *out)
{
    char tmp[PATH_MAX * 2];
    size_t n = 0;
    if (!path) path = "";
    if (path[0] != '/') {
        if (dirfd == AT_FDCWD) {
            long r = syscall(SYS_getcwd, tmp, (size_t)PATH_MAX);
            if (r <= 0) { tmp[0] = '/'; tmp[1] = 0; }
        } else {
            char link[64]; char *p = link, *e = link + sizeof link - 1;
            p = put_s(p, e, "/proc/self/fd/"); p = put_l(p, e, dirfd); *p = 0;
            long r = syscall(SYS_readlink, link, tmp, (size_t)PATH_MAX - 1);
            if (r <= 0) { tmp[0] = '/'; r = 1; }
            tmp[r] = 0;
        }
        n = s_len(tmp);
        if (n && tmp[n - 1] != '/') tmp[n++] = '/';
    }
    size_t pl = s_len(path);
    if (n + pl >= sizeof tmp) pl = sizeof tmp - n - 1;
    memcpy(tmp + n, path, pl); tmp[n + pl] = 0;

    /* normalise */
    size_t o = 0; const char *s = tmp;
    out[o++] = '/';
    while (*s) {
        while (*s == '/') s++;
        if (!*s) break;
        const char *e = s; while (*e && *e != '/') e++;
        size_t l = (size_t)(e - s);
        if (l == 1 && s[0] == '.') { /* skip */ }
        else if (l == 2 && s[0] == '.' && s[1] == '.') {
            if (o > 1) { o--; while (o > 1 && out[o - 1] != '/') o--; }
        } else {
            if (o + l + 2 >= PATH_MAX) break;
            memcpy(out + o, s, l); o += l; out[o++] = '/';
        }
        s = e;
    }
    if (o > 1) o--; /* drop trailing slash */
    out[o] = 0;
}

static int under_roots(const char *abs)
{
    for (int i = 0; i < n_roots; i++) {
        if (!strncmp(abs, roots[i], root_len[i]) && (abs[root_len[i]] == '/' || abs[root_len[i]] == 0))
            return 1;
    }
    return 0;
}

static void shim_init(void)
{
    if (initialised) return;
    initialised = 1;
    const char *r = getenv("BLSHIM_ROOTS");
    while (r && *r && n_roots < MAX_ROOTS) {
        const char *e = r; while (*e && *e != ':') e++;
        size_t l = (size_t)(e - r);
        if (l && l < PATH_MAX) {
            memcpy(roots[n_roots], r, l); roots[n_roots][l] = 0;
            while (l > 1 && roots[n_roots][l - 1] == '/') roots[n_roots][--l] = 0;
            root_len[n_roots] = l; n_roots++;
        }
        r = *e ? e + 1 : e;
    }
    const char *p = getenv("BLSHIM_PLAN");
    while (p && *p && n_plan < MAX_PLAN) {
        struct directive d = {0, 0, 0};
        if (!strncmp(p, "fail:", 5)) { d.type = D_FAIL; p += 5; }
        else if (!strncmp(p, "short:", 6)) { d.type = D_SHORT; p += 6; }
        else if (!strncmp(p, "kill:", 5)) { d.type = D_KILL; p += 5; }
        else if (!strncmp(p, "sig:", 4)) { d.type = D_SIG; p += 4; }
        else if (!strncmp(p, "wfail:", 6)) { d.type = D_WFAIL; p += 6; }
        else if (!strncmp(p, "rfail:", 6)) { d.type = D_RFAIL; p += 6; }
        else break;
        d.k = parse_l(&p);
        if (*p == ':') {
            p++;
            const char *e = p; while (*e && *e != ';') e++;
            if (d.type == D_FAIL || d.type == D_WFAIL || d.type == D_RFAIL) d.arg = errno_by_name(p, (size_t)(e - p));
            else { const char *q = p; d.arg = (int)parse_l(&q); }
            p = e;
        }
        if (d.type == D_WFAIL) { wfail_from = d.k; wfail_errno = d.arg ? d.arg : EIO; }
        else if (d.type == D_RFAIL) { rfail_from = d.k; rfail_errno = d.arg ? d.arg : EIO; }
        else plan[n_plan++] = d;
        while (*p == ';') p++;
    }
    const char *cs = getenv("BLSHIM_STDIO");
    count_stdio = cs && cs[0] == '1';
    const char *t = getenv("BLSHIM_TRACE");
    if (t && *t) {
        long fd = syscall(SYS_openat, AT_FDCWD, t, O_WRONLY | O_CREAT | O_APPEND | O_CLOEXEC, 0644);
        if (fd >= 0) {
            long d = syscall(SYS_dup3, (int)fd, TRACE_FD, O_CLOEXEC);
            if (d >= 0) { syscall(SYS_close, (int)fd); trace_fd = TRACE_FD; } else trace_fd = (int)fd;
        }
    }
}

__attribute__((constructor)) static void shim_ctor(void) { shim_init(); }

static void trace_line(long k, const char *kind, int fd, long flags, long ret, int err, const char *inj,
                       const char *p1, const char *p2)
{
    if (trace_fd < 0) return;
    char buf[2 * PATH_MAX + 256]; char *p = buf, *e = buf + sizeof buf - 2;
    long seq = __atomic_add_fetch(&seq_counter, 1, __ATOMIC_SEQ_CST);
    p = put_l(p, e, seq); *p++ = '\t';
    p = put_l(p, e, k); *p++ = '\t';
    p = put_s(p, e, kind); *p++ = '\t';
    p = put_l(p, e, fd); *p++ = '\t';
    p = put_l(p, e, flags); *p++ = '\t';
    p = put_l(p, e, ret); *p++ = '\t';
    p = put_l(p, e, err); *p++ = '\t';
    p = put_s(p, e, inj); *p++ = '\t';
    p = put_s(p, e, p1 ? p1 : "");
    if (p2) { *p++ = '\t'; p = put_s(p, e, p2); }
    *p++ = '\n';
    syscall(SYS_write, trace_fd, buf, (size_t)(p - buf));
}

/*
 * Called before every traced operation. Returns the counted index (0 when not
 * counted); *fail_errno is set when the op must fail, *shortw when it must be
 * a short write. Kill / signal directives are executed here.
 */
static long before_op(int counted, int *fail_errno, int *shortw)
{
    *fail_errno = 0; *shortw = 0;
    if (!counted) return 0;
    long k = __atomic_add_fetch(&op_counter, 1, __ATOMIC_SEQ_CST);
    for (int i = 0; i < n_plan; i++) {
        if (plan[i].k != k) continue;
        switch (plan[i].type) {
        case D_KILL:
            trace_line(k, "KILL", -1, 0, 0, 0, "kill", "", NULL);
            syscall(SYS_kill, (int)syscall(SYS_getpid), SIGKILL);
            for (;;) syscall(SYS_pause);
        case D_SIG:
            trace_line(k, "SIGNAL", -1, plan[i].arg, 0, 0, "sig", "", NULL);
            /* Thread-directed (tgkill to the calling thread): the handler has run by the time the
             * call returns, so delivery is synchronous with the operation boundary. A
             * process-directed kill() may be handled by any other thread at some later moment,
             * which made verdicts depend on scheduling. */
            syscall(SYS_tgkill, (int)syscall(SYS_getpid), (int)syscall(SYS_gettid), plan[i].arg);
            break;
        case D_FAIL: *fail_errno = plan[i].arg; break;
        case D_SHORT: *shortw = 1; break;
        }
    }
    return k;
}

#define REAL(name) \
    static __typeof__(name) *real_##name; \
    if (!real_##name) real_##name = (__typeof__(name) *)dlsym(RTLD_NEXT, #name)

static int fd_tracked(int fd) { return fd >= 0 && fd < MAX_FD && tracked[fd]; }

/* ---------------------------------------------------------------- open family */

static int do_open(const char *kind, int dirfd, const char *path, int flags, mode_t mode, int which)
{
    shim_init();
    char ap[PATH_MAX]; abs_path(dirfd, path, ap);
    int counted = under_roots(ap), fe, sw;
    long k = before_op(counted, &fe, &sw);
    int ret;
    if (fe) { errno = fe; trace_line(k, kind, -1, flags, -1, fe, "fail", ap, NULL); return -1; }
    switch (which) {
    case 0: { REAL(open); ret = real_open(path, flags, mode); break; }
    case 1: { REAL(open64); ret = real_open64(path, flags, mode); break; }
    case 2: { REAL(openat); ret = real_openat(dirfd, path, flags, mode); break; }
    default: { REAL(openat64); ret = real_openat64(dirfd, path, flags, mode); break; }
    }
    int e = errno;
    if (ret >= 0 && ret < MAX_FD) tracked[ret] = counted ? 1 : 0;
    trace_line(k, kind, ret, flags, ret, ret < 0 ? e : 0, "", ap, NULL);
    errno = e;
    return ret;
}

static mode_t get_mode(int flags, va_list ap)
{
    if ((flags & O_CREAT) || (flags & O_TMPFILE) == O_TMPFILE) return (mode_t)va_arg(ap, int);
    return 0;
}

int open(const char *path, int flags, ...)
{ va_list ap; va_start(ap, flags); mode_t m = get_mode(flags, ap); va_end(ap); return do_open("open", AT_FDCWD, path, flags, m, 0); }
int open64(const char *path, int flags, ...)
{ va_list ap; va_start(ap, flags); mode_t m = get_mode(flags, ap); va_end(ap); return do_open("open", AT_FDCWD, path, flags, m, 1); }
int openat(int dirfd, const char *path, int flags, ...)
{ va_list ap; va_start(ap, flags); mode_t m = get_mode(flags, ap); va_end(ap); return do_open("open", dirfd, path, flags, m, 2); }
int openat64(int dirfd, const char *path, int flags, ...)
{ va_list ap; va_start(ap, flags); mode_t m = get_mode(flags, ap); va_end(ap); return do_open("open", dirfd, path, flags, m, 3); }
int creat(const char *path, mode_t mode) { return do_open("open", AT_FDCWD, path, O_CREAT | O_WRONLY | O_TRUNC, mode, 0); }
int creat64(const char *path, mode_t mode) { return do_open("open", AT_FDCWD, path, O_CREAT | O_WRONLY | O_TRUNC, mode, 1); }

DIR *opendir(const char *path)
{
    shim_init();
    REAL(opendir);
    char ap[PATH_MAX]; abs_path(AT_FDCWD, path, ap);
    int counted = under_roots(ap), fe, sw;
    long k = before_op(counted, &fe, &sw);
    if (fe) { errno = fe; trace_line(k, "opendir", -1, 0, -1, fe, "fail", ap, NULL); return NULL; }
    DIR *d = real_opendir(path);
    int e = errno;
    trace_line(k, "opendir", -1, 0, d ? 0 : -1, d ? 0 : e, "", ap, NULL);
    errno = e;
    return d;
}

/* ---------------------------------------------------------------- fd ops */

ssize_t read(int fd, void *buf, size_t n)
{
    REAL(read);
    if (!fd_tracked(fd)) return real_read(fd, buf, n);
    int fe, sw; long k = before_op(1, &fe, &sw);
    if (fe) { errno = fe; trace_line(k, "read", fd, (long)n, -1, fe, "fail", "", NULL); return -1; }
    ssize_t r = real_read(fd, buf, n); int e = errno;
    trace_line(k, "read", fd, (long)n, (long)r, r < 0 ? e : 0, "", "", NULL);
    errno = e; return r;
}

ssize_t pread64(int fd, void *buf, size_t n, off64_t off)
{
    REAL(pread64);
    if (!fd_tracked(fd)) return real_pread64(fd, buf, n, off);
    int fe, sw; long k = before_op(1, &fe, &sw);
    if (fe) { errno = fe; trace_line(k, "read", fd, (long)n, -1, fe, "fail", "", NULL); return -1; }
    ssize_t r = real_pread64(fd, buf, n, off); int e = errno;
    trace_line(k, "read", fd, (long)n, (long)r, r < 0 ? e : 0, "", "", NULL);
    errno = e; return r;
}

ssize_t write(int fd, const void *buf, size_t n)
{
    REAL(write);
    if (count_stdio && (fd == 1 || fd == 2) && n > 0) {
        int fe0, sw0; long k0 = before_op(1, &fe0, &sw0);
        ssize_t r0 = real_write(fd, buf, n); int e0 = errno;
        trace_line(k0, "out", fd, (long)n, (long)r0, r0 < 0 ? e0 : 0, "", fd == 1 ? "<stdout>" : "<stderr>", NULL);
        errno = e0; return r0;
    }
    if (!fd_tracked(fd)) return real_write(fd, buf, n);
    int fe, sw; long k = before_op(1, &fe, &sw);
    if (!fe && wfail_from && k >= wfail_from) fe = wfail_errno;
    if (fe) { errno = fe; trace_line(k, "write", fd, (long)n, -1, fe, "fail", "", NULL); return -1; }
    size_t m = n;
    if (sw && n > 1) m = n / 2;
    ssize_t r = real_write(fd, buf, m); int e = errno;
    trace_line(k, "write", fd, (long)n, (long)r, r < 0 ? e : 0, sw ? "short" : "", "", NULL);
    errno = e; return r;
}

ssize_t pwrite64(int fd, const void *buf, size_t n, off64_t off)
{
    REAL(pwrite64);
    if (!fd_tracked(fd)) return real_pwrite64(fd, buf, n, off);
    int fe, sw; long k = before_op(1, &fe, &sw);
    if (!fe && wfail_from && k >= wfail_from) fe = wfail_errno;
    if (fe) { errno = fe; trace_line(k, "write", fd, (long)n, -1, fe, "fail", "", NULL); return -1; }
    ssize_t r = real_pwrite64(fd, buf, n, off); int e = errno;
    trace_line(k, "write", fd, (long)n, (long)r, r < 0 ? e : 0, "", "", NULL);
    errno = e; return r;
}

ssize_t writev(int fd, const struct iovec *iov, int cnt)
{
    REAL(writev);
    if (!fd_tracked(fd)) return real_writev(fd, iov, cnt);
    int fe, sw; long k = before_op(1, &fe, &sw);
    long total = 0; for (int i = 0; i < cnt; i++) total += (long)iov[i].iov_len;
    if (!fe && wfail_from && k >= wfail_from) fe = wfail_errno;
    if (fe) { errno = fe; trace_line(k, "write", fd, total, -1, fe, "fail", "", NULL); return -1; }
    ssize_t r = real_writev(fd, iov, cnt); int e = errno;
    trace_line(k, "write", fd, total, (long)r, r < 0 ? e : 0, "", "", NULL);
    errno = e; return r;
}

ssize_t copy_file_range(int fin, off64_t *oin, int fout, off64_t *oout, size_t n, unsigned int fl)
{
    REAL(copy_file_range);
    if (!fd_tracked(fout)) return real_copy_file_range(fin, oin, fout, oout, n, fl);
    int fe, sw; long k = before_op(1, &fe, &sw);
    if (fe) { errno = fe; trace_line(k, "copy", fout, (long)n, -1, fe, "fail", "", NULL); return -1; }
    ssize_t r = real_copy_file_range(fin, oin, fout, oout, n, fl); int e = errno;
    trace_line(k, "copy", fout, (long)n, (long)r, r < 0 ? e : 0, "", "", NULL);
    errno = e; return r;
}

ssize_t sendfile64(int fout, int fin, off64_t *off, size_t n)
{
    static ssize_t (*real_sf)(int, int, off64_t *, size_t);
    if (!real_sf) real_sf = (ssize_t(*)(int, int, off64_t *, size_t))dlsym(RTLD_NEXT, "sendfile64");
    if (!fd_tracked(fout)) return real_sf(fout, fin, off, n);
    int fe, sw; long k = before_op(1, &fe, &sw);
    if (fe) { errno = fe; trace_line(k, "copy", fout, (long)n, -1, fe, "fail", "", NULL); return -1; }
    ssize_t r = real_sf(fout, fin, off, n); int e = errno;
    trace_line(k, "copy", fout, (long)n, (long)r, r < 0 ? e : 0, "", "", NULL);
    errno = e; return r;
}

int close(int fd)
{
    REAL(close);
    if (fd == trace_fd && trace_fd >= 0) { errno = EBADF; return -1; }
    if (!fd_tracked(fd)) return real_close(fd);
    int fe, sw; long k = before_op(1, &fe, &sw);
    tracked[fd] = 0;
    /* a failing close still releases the descriptor, as on Linux */
    int r = real_close(fd); int e = errno;
    if (fe) { trace_line(k, "close", fd, 0, -1, fe, "fail", "", NULL); errno = fe; return -1; }
    trace_line(k, "close", fd, 0, r, r < 0 ? e : 0, "", "", NULL);
    errno = e; return r;
}

#define FD_OP(name, kindstr) \
    int name(int fd) \
    { \
        REAL(name); \
        if (!fd_tracked(fd)) return real_##name(fd); \
        int fe, sw; long k = before_op(1, &fe, &sw); \
        if (fe) { errno = fe; trace_line(k, kindstr, fd, 0, -1, fe, "fail", "", NULL); return -1; } \
        int r = real_##name(fd); int e = errno; \
        trace_line(k, kindstr, fd, 0, r, r < 0 ? e : 0, "", "", NULL); \
        errno = e; return r; \
    }
FD_OP(fsync, "fsync")
FD_OP(fdatasync, "fsync")

int ftruncate64(int fd, off64_t len)
{
    REAL(ftruncate64);
    if (!fd_tracked(fd)) return real_ftruncate64(fd, len);
    int fe, sw; long k = before_op(1, &fe, &sw);
    if (fe) { errno = fe; trace_line(k, "ftruncate", fd, (long)len, -1, fe, "fail", "", NULL); return -1; }
    int r = real_ftruncate64(fd, len); int e = errno;
    trace_line(k, "ftruncate", fd, (long)len, r, r < 0 ? e : 0, "", "", NULL);
    errno = e; return r;
}
int ftruncate(int fd, off_t len) { return ftruncate64(fd, (off64_t)len); }

int fchmod(int fd, mode_t mode)
{
    REAL(fchmod);
    if (!fd_tracked(fd)) return real_fchmod(fd, mode);
    int fe, sw; long k = before_op(1, &fe, &sw);
    if (fe) { errno = fe; trace_line(k, "chmod", fd, (long)mode, -1, fe, "fail", "", NULL); return -1; }
    int r = real_fchmod(fd, mode); int e = errno;
    trace_line(k, "chmod", fd, (long)mode, r, r < 0 ? e : 0, "", "", NULL);
    errno = e; return r;
}

/* ---------------------------------------------------------------- path ops */

#define PATH1_BODY(kindstr, dirfd, path, flags, CALL) \
    shim_init(); \
    char ap[PATH_MAX]; abs_path(dirfd, path, ap); \
    int counted = under_roots(ap), fe, sw; \
    long k = before_op(counted, &fe, &sw); \
    if (fe) { errno = fe; trace_line(k, kindstr, -1, (long)(flags), -1, fe, "fail", ap, NULL); return -1; } \
    int r = CALL; int e = errno; \
    trace_line(k, kindstr, -1, (long)(flags), r, r < 0 ? e : 0, "", ap, NULL); \
    errno = e; return r;

#define PATH2_BODY(kindstr, d1, p1, d2, p2, CALL) \
    shim_init(); \
    char a1[PATH_MAX], a2[PATH_MAX]; abs_path(d1, p1, a1); abs_path(d2, p2, a2); \
    int counted = under_roots(a1) || under_roots(a2), fe, sw; \
    long k = before_op(counted, &fe, &sw); \
    if (!fe && counted && rfail_from && k >= rfail_from && kindstr[0] == 'r' && kindstr[1] == 'e') fe = rfail_errno; \
    if (fe) { errno = fe; trace_line(k, kindstr, -1, 0, -1, fe, "fail", a1, a2); return -1; } \
    int r = CALL; int e = errno; \
    trace_line(k, kindstr, -1, 0, r, r < 0 ? e : 0, "", a1, a2); \
    errno = e; return r;

int rename(const char *a, const char *b) { REAL(rename); PATH2_BODY("rename", AT_FDCWD, a, AT_FDCWD, b, real_rename(a, b)) }
int renameat(int da, const char *a, int db, const char *b) { REAL(renameat); PATH2_BODY("rename", da, a, db, b, real_renameat(da, a, db, b)) }
int renameat2(int da, const char *a, int db, const char *b, unsigned int f) { REAL(renameat2); PATH2_BODY("rename", da, a, db, b, real_renameat2(da, a, db, b, f)) }
int link(const char *a, const char *b) { REAL(link); PATH2_BODY("link", AT_FDCWD, a, AT_FDCWD, b, real_link(a, b)) }
int linkat(int da, const char *a, int db, const char *b, int f) { REAL(linkat); PATH2_BODY("link", da, a, db, b, real_linkat(da, a, db, b, f)) }
int symlink(const char *a, const char *b) { REAL(symlink); PATH2_BODY("symlink", AT_FDCWD, b, AT_FDCWD, b, real_symlink(a, b)) }
int symlinkat(const char *a, int db, const char *b) { REAL(symlinkat); PATH2_BODY("symlink", db, b, db, b, real_symlinkat(a, db, b)) }

int unlink(const char *p) { REAL(unlink); PATH1_BODY("unlink", AT_FDCWD, p, 0, real_unlink(p)) }
int unlinkat(int d, const char *p, int f) { REAL(unlinkat); PATH1_BODY((f & AT_REMOVEDIR) ? "rmdir" : "unlink", d, p, f, real_unlinkat(d, p, f)) }
int rmdir(const char *p) { REAL(rmdir); PATH1_BODY("rmdir", AT_FDCWD, p, 0, real_rmdir(p)) }
int mkdir(const char *p, mode_t m) { REAL(mkdir); PATH1_BODY("mkdir", AT_FDCWD, p, m, real_mkdir(p, m)) }
int mkdirat(int d, const char *p, mode_t m) { REAL(mkdirat); PATH1_BODY("mkdir", d, p, m, real_mkdirat(d, p, m)) }
int chmod(const char *p, mode_t m) { REAL(chmod); PATH1_BODY("chmod", AT_FDCWD, p, m, real_chmod(p, m)) }
int fchmodat(int d, const char *p, mode_t m, int f) { REAL(fchmodat); PATH1_BODY("chmod", d, p, m, real_fchmodat(d, p, m, f)) }
int truncate64(const char *p, off64_t l) { REAL(truncate64); PATH1_BODY("ftruncate", AT_FDCWD, p, l, real_truncate64(p, l)) }
int truncate(const char *p, off_t l) { REAL(truncate); PATH1_BODY("ftruncate", AT_FDCWD, p, l, real_truncate(p, l)) }
int utimensat(int d, const char *p, const struct timespec t[2], int f)
{
    REAL(utimensat);
    if (!p) return real_utimensat(d, p, t, f);
    PATH1_BODY("utimens", d, p, f, real_utimensat(d, p, t, f))
}

/* ---------------------------------------------------------------- stat family */

int stat(const char *p, struct stat *st) { REAL(stat); PATH1_BODY("stat", AT_FDCWD, p, 0, real_stat(p, st)) }
int lstat(const char *p, struct stat *st) { REAL(lstat); PATH1_BODY("stat", AT_FDCWD, p, 1, real_lstat(p, st)) }
int stat64(const char *p, struct stat64 *st) { REAL(stat64); PATH1_BODY("stat", AT_FDCWD, p, 0, real_stat64(p, st)) }
int lstat64(const char *p, struct stat64 *st) { REAL(lstat64); PATH1_BODY("stat", AT_FDCWD, p, 1, real_lstat64(p, st)) }
int fstatat(int d, const char *p, struct stat *st, int f)
{
    REAL(fstatat);
    if (!p || !*p) return real_fstatat(d, p, st, f);
    PATH1_BODY("stat", d, p, f, real_fstatat(d, p, st, f))
}
int fstatat64(int d, const char *p, struct stat64 *st, int f)
{
    REAL(fstatat64);
    if (!p || !*p) return real_fstatat64(d, p, st, f);
    PATH1_BODY("stat", d, p, f, real_fstatat64(d, p, st, f))
}
int statx(int d, const char *p, int f, unsigned int mask, struct statx *st)
{
    REAL(statx);
    if (!p || !*p) return real_statx(d, p, f, mask, st);
    PATH1_BODY("stat", d, p, f, real_statx(d, p, f, mask, st))
}
int access(const char *p, int m) { REAL(access); PATH1_BODY("stat", AT_FDCWD, p, m, real_access(p, m)) }
int faccessat(int d, const char *p, int m, int f) { REAL(faccessat); PATH1_BODY("stat", d, p, m, real_faccessat(d, p, m, f)) }
