#!/bin/bash
# Build (incrementally) the subject and the verification machinery, all offline:
#   .build/bl/release/breadlog     the real executable from /repo's working tree
#   .build/fsshim.so               LD_PRELOAD fault/trace interposer
#   .build/fuzz/x86_64-unknown-linux-gnu/release/fz_{parse,edit}   libFuzzer targets (cargo-fuzz, nightly) for C17
#   .build/c09rt/release/deps/liblog-*.rlib   log 0.4.22 with feature kv, for the compile-and-run check C09
#   .build/harness/release/blverif harness linked against /repo's library with --features verif-hooks
set -e
VERIF="$(cd "$(dirname "$0")" && pwd)"
export CARGO_NET_OFFLINE=true
mkdir -p "$VERIF/.build" "$VERIF/evidence"
exec 9>"$VERIF/.build/build.lock"
flock 9
if [ ! -f "$VERIF/.build/fsshim.so" ] || [ "$VERIF/shim/fsshim.c" -nt "$VERIF/.build/fsshim.so" ]; then
  cc -O2 -fPIC -shared -o "$VERIF/.build/fsshim.so.tmp" "$VERIF/shim/fsshim.c" -ldl
  mv "$VERIF/.build/fsshim.so.tmp" "$VERIF/.build/fsshim.so"
fi
cargo build --release --offline --manifest-path /repo/Cargo.toml --bin breadlog --target-dir "$VERIF/.build/bl"
( cd "$VERIF/fuzz" && cargo +nightly fuzz build -O --fuzz-dir "$VERIF/fuzz" --target-dir "$VERIF/.build/fuzz" )
( cd "$VERIF/c09rt" && cargo build --release --offline --target-dir "$VERIF/.build/c09rt" )
( cd "$VERIF/harness" && cargo build --release --offline --target-dir "$VERIF/.build/harness" )
