#!/bin/bash
# run_all.sh [tier] [seed ...] — runs every registered check; prints one summary line per check.
VERIF="$(cd "$(dirname "$0")" && pwd)"
TIER="${1:-quick}"; shift
SEEDS="${@:-1}"
export CARGO_NET_OFFLINE=true BLVERIF_DIR="$VERIF" BLVERIF_BUILD="$VERIF/.build"
mkdir -p "$VERIF/.build"
"$VERIF/build.sh" > "$VERIF/.build/build.log" 2>&1 || { echo BUILD FAILED; tail -20 "$VERIF/.build/build.log"; exit 2; }
for seed in $SEEDS; do
  for p in C01 C02 C03 C04 C05 C06 C07 C08 C09 C10 C11 C12 C13 C14 C15 C16 C17 C18; do
    out=$(VERIF_SEED=$seed "$VERIF/.build/harness/release/blverif" --prop $p --tier $TIER 2>&1); rc=$?
    echo "seed=$seed rc=$rc $(echo "$out" | grep -E "^$p " | tail -1)"
    if [ $rc -ne 0 ]; then echo "$out" | grep -E "^\[|VIOLATION|INCONCLUSIVE|HARNESS" | cut -c1-400 | head -6; fi
  done
done
