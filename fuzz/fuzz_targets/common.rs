// Shared by the fuzz targets: configuration selection and the oracles
// (position model, insertion decomposition), written independently of Breadlog.

pub const MACRO_SETS: &[&[(&str, &str)]] = &[
    &[("log", "info"), ("log", "warn"), ("log", "error")],
    &[("log", "info")],
    &[("a::b", "w"), ("log", "debug"), ("my", "trace2")],
    &[("lög", "é"), ("log", "info"), ("x", "_")],
];

pub fn config_of(sel: u8) -> (bool, Vec<(String, String)>)
{
    let structured = sel & 1 == 1;
    let set = MACRO_SETS[((sel >> 1) as usize) % MACRO_SETS.len()];
    (structured, set.iter().map(|(m, n)| (m.to_string(), n.to_string())).collect())
}

pub fn line_col(content: &[u8], offset: usize) -> (usize, usize)
{
    let upto = &content[..offset.min(content.len())];
    let mut line = 1usize;
    let mut line_start = 0usize;
    for (idx, b) in upto.iter().enumerate()
    {
        if *b == b'\n'
        {
            line += 1;
            line_start = idx + 1;
        }
    }
    let col = upto[line_start..].iter().filter(|b| (**b & 0xC0) != 0x80).count() + 1;
    (line, col)
}

fn token_at(b: &[u8], j: usize) -> Option<usize>
{
    let rest = &b[j..];
    let msg = if rest.starts_with(b"[ref: ")
    {
        true
    }
    else if rest.starts_with(b"ref = ")
    {
        false
    }
    else
    {
        return None;
    };
    let mut k = 6;
    while k < rest.len() && rest[k].is_ascii_digit()
    {
        k += 1;
    }
    if k == 6
    {
        return None;
    }
    if msg
    {
        if rest[k..].starts_with(b"] ")
        {
            return Some(k + 2);
        }
        None
    }
    else if rest[k..].starts_with(b"; ") || rest[k..].starts_with(b", ")
    {
        Some(k + 2)
    }
    else
    {
        None
    }
}

/// Number of inserted tokens if `new` is `orig` plus reference tokens only.
pub fn decompose(orig: &[u8], new: &[u8]) -> Result<Vec<usize>, String>
{
    let mut ins: Vec<usize> = Vec::new();
    let mut stack: Vec<(usize, usize, usize)> = Vec::new();
    let mut seen = std::collections::HashSet::new();
    let (mut i, mut j) = (0usize, 0usize);
    let mut force_match = false;
    loop
    {
        let mut failed = false;
        if j == new.len()
        {
            if i == orig.len()
            {
                return Ok(ins);
            }
            failed = true;
        }
        else
        {
            let tok = if force_match { None } else { token_at(new, j) };
            let can_match = i < orig.len() && orig[i] == new[j];
            if let Some(len) = tok
            {
                let fresh = if can_match { seen.insert((i, j)) } else { true };
                if fresh
                {
                    if can_match
                    {
                        stack.push((i, j, ins.len()));
                    }
                    ins.push(i);
                    j += len;
                }
                else
                {
                    failed = true;
                }
            }
            else if can_match
            {
                i += 1;
                j += 1;
                force_match = false;
            }
            else
            {
                failed = true;
            }
        }
        if failed
        {
            match stack.pop()
            {
                None => return Err(format!("not insertion-only near original offset {} / new offset {}", i, j)),
                Some((ci, cj, n)) =>
                {
                    ins.truncate(n);
                    i = ci;
                    j = cj;
                    force_match = true;
                },
            }
        }
    }
}
