#![no_main]
//! Coverage-guided fuzzing of the parser under several configurations.
//! Oracle inside the target: no panic; entries ordered by offset; every offset
//! on a char boundary inside the input; line/column equal to the position model.
use libfuzzer_sys::fuzz_target;
mod common;

fuzz_target!(|data: &[u8]| {
    if data.is_empty()
    {
        return;
    }
    let (structured, macros) = common::config_of(data[0]);
    let code = match std::str::from_utf8(&data[1..])
    {
        Ok(c) => c,
        Err(_) => return,
    };
    let entries = breadlog::verif::find(code, structured, &macros);
    let mut last = 0usize;
    for e in &entries
    {
        assert!(e.offset <= code.len(), "offset {} beyond input length {}", e.offset, code.len());
        assert!(code.is_char_boundary(e.offset), "offset {} is not a char boundary", e.offset);
        assert!(e.offset >= last, "entries out of order: {} after {}", e.offset, last);
        last = e.offset;
        let (l, c) = common::line_col(code.as_bytes(), e.offset);
        assert!((e.line, e.column) == (l, c), "entry at {} reports {}:{} but is at {}:{}", e.offset, e.line, e.column, l, c);
        if e.reference.is_none() && e.usable
        {
            let t = &e.token_for_7;
            assert!(t == "[ref: 7] " || t == "ref = 7; " || t == "ref = 7, ", "unexpected token text {:?}", t);
        }
    }
});
