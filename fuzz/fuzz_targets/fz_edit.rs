#![no_main]
//! Coverage-guided fuzzing of check + edit, in-process, on a one-file project
//! in /dev/shm. Oracle inside the target: no panic; the edit is insertion-only
//! (deleting the inserted tokens gives back the input); the number of tokens
//! equals the number of places the parser calls missing.
use libfuzzer_sys::fuzz_target;
mod common;
use std::sync::OnceLock;

static DIR: OnceLock<std::path::PathBuf> = OnceLock::new();

fn dir() -> &'static std::path::PathBuf
{
    DIR.get_or_init(|| {
        let base = std::env::var("FZ_SCRATCH").unwrap_or_else(|_| "/dev/shm".to_string());
        let d = std::path::PathBuf::from(base).join(format!("fz_edit.{}", std::process::id()));
        let _ = std::fs::remove_dir_all(&d);
        std::fs::create_dir_all(d.join("src")).unwrap();
        std::fs::create_dir_all(d.join("tmp")).unwrap();
        std::env::set_var("TMPDIR", d.join("tmp"));
        d
    })
}

fuzz_target!(|data: &[u8]| {
    if data.is_empty()
    {
        return;
    }
    let (structured, macros) = common::config_of(data[0]);
    let content = &data[1..];
    let d = dir();
    let mut yaml = format!("source_dir: ./src\nuse_cache: false\nrust:\n  structured: {}\n  log_macros:\n", structured);
    for (m, n) in &macros
    {
        yaml.push_str(&format!("    - module: \"{}\"\n      name: \"{}\"\n", m, n));
    }
    let cfg = d.join("Breadlog.yaml");
    std::fs::write(&cfg, yaml).unwrap();
    let file = d.join("src/a.rs");
    std::fs::write(&file, content).unwrap();
    let cfg_s = cfg.to_str().unwrap();

    // what the parser predicts (only meaningful for valid UTF-8)
    let predicted: Option<Vec<usize>> = std::str::from_utf8(content).ok().map(|code| {
        breadlog::verif::find(code, structured, &macros)
            .iter()
            .filter(|e| e.reference.is_none() && e.usable)
            .map(|e| e.offset)
            .collect()
    });
    let max_existing: Option<u32> = std::str::from_utf8(content)
        .ok()
        .and_then(|code| breadlog::verif::find(code, structured, &macros).iter().filter_map(|e| e.reference).max());

    let _ = breadlog::verif::run(cfg_s, true);
    let after_check = std::fs::read(&file).unwrap();
    assert!(after_check == content, "--check modified the file");

    let edit = breadlog::verif::run(cfg_s, false);
    let new = std::fs::read(&file).unwrap();
    let ins = match common::decompose(content, &new)
    {
        Ok(i) => i,
        Err(m) => panic!("edit is not insertion-only: {}", m),
    };
    if let Some(p) = &predicted
    {
        let exhausted = max_existing.map(|m| (m as u64 + p.len() as u64) >= u32::MAX as u64).unwrap_or(false);
        if !exhausted
        {
            assert!(edit.is_ok(), "fault-free edit failed: {:?}", edit);
            assert!(&ins == p, "inserted at {:?}, parser predicted {:?}", ins, p);
            // No fixpoint assertion here: on malformed text an inserted `ref = N; ` can
            // legitimately complete a broken earlier statement; C06 claims the fixpoint
            // for valid usage only and checks it there.
            let _ = breadlog::verif::run(cfg_s, true);
        }
    }
    else
    {
        assert!(ins.is_empty(), "a file that is not valid UTF-8 was modified");
    }
});
