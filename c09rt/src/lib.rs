pub use log;
