//! Per-case sandboxes, tree materialisation, snapshots and the Breadlog runner
//! (optionally under the fsshim interposer).

use crate::oracle::{parse_report, Report};
use serde::{Deserialize, Serialize};
use std::collections::BTreeMap;
use std::fs;
use std::io::Read;
use std::os::unix::fs::{MetadataExt, PermissionsExt};
use std::os::unix::process::{CommandExt, ExitStatusExt};
use std::path::{Path, PathBuf};
use std::process::{Command, Stdio};
use std::sync::atomic::{AtomicU64, Ordering};
use std::sync::Mutex;
use std::time::{Duration, Instant};

static COUNTER: AtomicU64 = AtomicU64::new(0);

pub fn build_dir() -> PathBuf
{
    PathBuf::from(std::env::var("BLVERIF_BUILD").unwrap_or_else(|_| "/verif/.build".to_string()))
}

pub fn breadlog_bin() -> PathBuf
{
    if let Ok(p) = std::env::var("BLVERIF_BIN")
    {
        return PathBuf::from(p);
    }
    build_dir().join("bl/release/breadlog")
}

pub fn shim_path() -> PathBuf
{
    build_dir().join("fsshim.so")
}

pub fn scratch_base() -> PathBuf
{
    PathBuf::from(std::env::var("BLVERIF_SCRATCH").unwrap_or_else(|_| "/dev/shm".to_string()))
}

/// A private directory tree for one case; removed on drop.
pub struct Sandbox
{
    pub root: PathBuf,
}

impl Sandbox
{
    pub fn new() -> Sandbox
    {
        let n = COUNTER.fetch_add(1, Ordering::Relaxed);
        let root = scratch_base().join(format!("blverif.{}.{}", std::process::id(), n));
        let _ = fs::remove_dir_all(&root);
        fs::create_dir_all(&root).expect("create sandbox");
        for d in ["proj", "tmp", "cwd", "outside"]
        {
            fs::create_dir_all(root.join(d)).expect("create sandbox dir");
        }
        Sandbox { root }
    }

    /// A sandbox whose root lives under another base directory (e.g. on ext4).
    pub fn new_in(base: &Path) -> Sandbox
    {
        let n = COUNTER.fetch_add(1, Ordering::Relaxed);
        let root = base.join(format!("blverif.{}.{}", std::process::id(), n));
        let _ = fs::remove_dir_all(&root);
        fs::create_dir_all(&root).expect("create sandbox");
        Sandbox { root }
    }

    pub fn proj(&self) -> PathBuf
    {
        self.root.join("proj")
    }
    pub fn tmp(&self) -> PathBuf
    {
        self.root.join("tmp")
    }
    pub fn cwd(&self) -> PathBuf
    {
        self.root.join("cwd")
    }
    pub fn outside(&self) -> PathBuf
    {
        self.root.join("outside")
    }
}

impl Drop for Sandbox
{
    fn drop(&mut self)
    {
        // make everything removable again (tests may chmod)
        let _ = restore_perms(&self.root);
        let _ = fs::remove_dir_all(&self.root);
    }
}

fn restore_perms(p: &Path) -> std::io::Result<()>
{
    let md = fs::symlink_metadata(p)?;
    if md.file_type().is_symlink()
    {
        return Ok(());
    }
    if md.is_dir()
    {
        if md.permissions().mode() & 0o700 != 0o700
        {
            let _ = fs::set_permissions(p, fs::Permissions::from_mode(0o755));
        }
        for e in fs::read_dir(p)?
        {
            let _ = restore_perms(&e?.path());
        }
    }
    Ok(())
}

// ---------------------------------------------------------------- tree description

#[derive(Clone, Debug, PartialEq, Eq, Hash, Serialize, Deserialize)]
pub enum Node
{
    File(#[serde(with = "bytes_as_text")] Vec<u8>),
    Dir,
    Symlink(String),
}

/// Bytes are stored as a string when valid UTF-8 (readable replay files) and as
/// a hex string prefixed by "hex:" otherwise.
pub mod bytes_as_text
{
    use serde::{Deserialize, Deserializer, Serializer};

    pub fn serialize<S: Serializer>(v: &Vec<u8>, s: S) -> Result<S::Ok, S::Error>
    {
        match std::str::from_utf8(v)
        {
            Ok(t) if !t.starts_with("hex:") => s.serialize_str(t),
            _ =>
            {
                let mut h = String::from("hex:");
                for b in v
                {
                    h.push_str(&format!("{:02x}", b));
                }
                s.serialize_str(&h)
            },
        }
    }

    pub fn deserialize<'de, D: Deserializer<'de>>(d: D) -> Result<Vec<u8>, D::Error>
    {
        let t = String::deserialize(d)?;
        if let Some(h) = t.strip_prefix("hex:")
        {
            let hb = h.as_bytes();
            let mut out = Vec::with_capacity(hb.len() / 2);
            let mut i = 0;
            while i + 1 < hb.len()
            {
                let v = u8::from_str_radix(&h[i..i + 2], 16).unwrap_or(0);
                out.push(v);
                i += 2;
            }
            Ok(out)
        }
        else
        {
            Ok(t.into_bytes())
        }
    }
}

/// Relative path -> node. BTreeMap so that parents come before children.
pub type Tree = BTreeMap<String, Node>;

pub fn materialise(base: &Path, tree: &Tree)
{
    for (rel, node) in tree
    {
        let p = base.join(rel);
        if let Some(parent) = p.parent()
        {
            let _ = fs::create_dir_all(parent);
        }
        match node
        {
            Node::File(b) => fs::write(&p, b).unwrap_or_else(|e| panic!("write {:?}: {}", p, e)),
            Node::Dir =>
            {
                let _ = fs::create_dir_all(&p);
            },
            Node::Symlink(t) =>
            {
                let _ = fs::remove_file(&p);
                std::os::unix::fs::symlink(t, &p).unwrap_or_else(|e| panic!("symlink {:?}: {}", p, e));
            },
        }
    }
}

// ---------------------------------------------------------------- snapshots

#[derive(Clone, Debug, PartialEq, Eq)]
pub struct SnapEntry
{
    pub kind: char, // f d l o
    pub mode: u32,
    pub size: u64,
    pub mtime_ns: i128,
    pub ino: u64,
    pub content: Option<Vec<u8>>,
    pub link: Option<String>,
}

pub type Snapshot = BTreeMap<String, SnapEntry>;

pub fn snapshot(base: &Path) -> Snapshot
{
    let mut out = Snapshot::new();
    snap_rec(base, base, &mut out);
    out
}

fn snap_rec(base: &Path, p: &Path, out: &mut Snapshot)
{
    let md = match fs::symlink_metadata(p)
    {
        Ok(m) => m,
        Err(_) => return,
    };
    let rel = p.strip_prefix(base).unwrap().to_string_lossy().to_string();
    let ft = md.file_type();
    let kind = if ft.is_symlink()
    {
        'l'
    }
    else if ft.is_dir()
    {
        'd'
    }
    else if ft.is_file()
    {
        'f'
    }
    else
    {
        'o'
    };
    let content = if kind == 'f' { fs::read(p).ok() } else { None };
    let link = if kind == 'l'
    {
        fs::read_link(p).ok().map(|t| t.to_string_lossy().to_string())
    }
    else
    {
        None
    };
    out.insert(
        rel,
        SnapEntry {
            kind,
            mode: md.mode(),
            size: if kind == 'd' { 0 } else { md.size() },
            mtime_ns: md.mtime() as i128 * 1_000_000_000 + md.mtime_nsec() as i128,
            ino: md.ino(),
            content,
            link,
        },
    );
    if kind == 'd'
    {
        if let Ok(rd) = fs::read_dir(p)
        {
            let mut names: Vec<PathBuf> = rd.filter_map(|e| e.ok().map(|e| e.path())).collect();
            names.sort();
            for n in names
            {
                snap_rec(base, &n, out);
            }
        }
    }
}

/// Differences between two snapshots, as human-readable lines. `strict_meta`
/// also compares mtime and inode (used by C04); directories' mtimes are
/// compared too in strict mode because creating/removing an entry changes them.
pub fn snapshot_diff(a: &Snapshot, b: &Snapshot, strict_meta: bool, ignore: &dyn Fn(&str) -> bool) -> Vec<String>
{
    let mut out = Vec::new();
    for (k, ea) in a
    {
        if ignore(k)
        {
            continue;
        }
        match b.get(k)
        {
            None => out.push(format!("removed: {}", k)),
            Some(eb) =>
            {
                if ea.kind != eb.kind
                {
                    out.push(format!("type changed: {} {} -> {}", k, ea.kind, eb.kind));
                    continue;
                }
                if ea.content != eb.content
                {
                    out.push(format!("content changed: {}", k));
                }
                if ea.link != eb.link
                {
                    out.push(format!("symlink target changed: {}", k));
                }
                if (ea.mode & 0o7777) != (eb.mode & 0o7777)
                {
                    out.push(format!("mode changed: {} {:o} -> {:o}", k, ea.mode, eb.mode));
                }
                if strict_meta
                {
                    if ea.mtime_ns != eb.mtime_ns
                    {
                        out.push(format!("mtime changed: {}", k));
                    }
                    if ea.ino != eb.ino
                    {
                        out.push(format!("inode changed: {}", k));
                    }
                }
            },
        }
    }
    for k in b.keys()
    {
        if !a.contains_key(k) && !ignore(k)
        {
            out.push(format!("created: {}", k));
        }
    }
    out
}

// ---------------------------------------------------------------- running breadlog

#[derive(Clone, Debug, PartialEq, Eq)]
pub enum Exit
{
    Code(i32),
    Signal(i32),
    Timeout,
}

impl Exit
{
    pub fn success(&self) -> bool
    {
        *self == Exit::Code(0)
    }
    pub fn describe(&self) -> String
    {
        match self
        {
            Exit::Code(c) => format!("exit code {}", c),
            Exit::Signal(s) => format!("killed by signal {}", s),
            Exit::Timeout => "timeout".to_string(),
        }
    }
}

#[derive(Clone, Debug, PartialEq, Eq)]
pub struct TraceOp
{
    pub seq: u64,
    /// counted index (0 = outside the roots)
    pub k: u64,
    pub kind: String,
    pub fd: i64,
    pub flags: i64,
    pub ret: i64,
    pub errno: i64,
    pub inj: String,
    pub path: String,
    pub path2: String,
}

impl TraceOp
{
    /// Does this call (attempt to) modify the filesystem?
    pub fn mutating(&self) -> bool
    {
        match self.kind.as_str()
        {
            // the language runtime re-opens closed standard descriptors on /dev/null: not a file system change
            "open" if self.path == "/dev/null" => false,
            "open" =>
            {
                let f = self.flags;
                let acc = f & 3;
                acc == 1 || acc == 2 || (f & 0o100) != 0 || (f & 0o1000) != 0 || (f & 0o2000) != 0
            },
            "write" | "ftruncate" | "rename" | "unlink" | "mkdir" | "rmdir" | "link" | "symlink" | "chmod" | "utimens"
            | "copy" => true,
            _ => false,
        }
    }
}

pub fn parse_trace(text: &str) -> Vec<TraceOp>
{
    let mut out = Vec::new();
    let mut fd_paths: BTreeMap<i64, String> = BTreeMap::new();
    for line in text.lines()
    {
        let f: Vec<&str> = line.split('\t').collect();
        if f.len() < 9
        {
            continue;
        }
        let mut op = TraceOp {
            seq: f[0].parse().unwrap_or(0),
            k: f[1].parse().unwrap_or(0),
            kind: f[2].to_string(),
            fd: f[3].parse().unwrap_or(-1),
            flags: f[4].parse().unwrap_or(0),
            ret: f[5].parse().unwrap_or(0),
            errno: f[6].parse().unwrap_or(0),
            inj: f[7].to_string(),
            path: f[8].to_string(),
            path2: f.get(9).map(|s| s.to_string()).unwrap_or_default(),
        };
        if op.kind == "open" && op.ret >= 0
        {
            fd_paths.insert(op.ret, op.path.clone());
        }
        else if op.path.is_empty() && op.fd >= 0
        {
            if let Some(p) = fd_paths.get(&op.fd)
            {
                op.path = p.clone();
            }
            if op.kind == "close"
            {
                fd_paths.remove(&op.fd);
            }
        }
        out.push(op);
    }
    out
}

#[derive(Clone, Debug)]
pub struct RunSpec
{
    pub check: bool,
    pub cwd: PathBuf,
    pub config_arg: String,
    pub tmpdir: PathBuf,
    /// shim plan, e.g. "kill:12" ; None = no faults
    pub plan: Option<String>,
    /// load the shim and record a trace
    pub trace: bool,
    /// roots for counted operations
    pub roots: Vec<PathBuf>,
    pub timeout: Duration,
}

#[derive(Clone, Debug)]
pub struct RunResult
{
    pub exit: Exit,
    pub stdout: String,
    pub stderr: String,
    pub report: Report,
    pub trace: Vec<TraceOp>,
    pub wall: Duration,
}

impl RunResult
{
    pub fn counted_ops(&self) -> u64
    {
        self.trace.iter().map(|t| t.k).max().unwrap_or(0)
    }
    pub fn output_tail(&self) -> String
    {
        let mut s = String::new();
        let all: Vec<&str> = self.stdout.lines().chain(self.stderr.lines()).collect();
        let n = all.len();
        for l in &all[n.saturating_sub(12)..]
        {
            s.push_str(l);
            s.push('\n');
        }
        s
    }
}

/// Children currently running, for the watchdog: (pid, deadline).
static RUNNING: Mutex<Vec<(i32, Instant)>> = Mutex::new(Vec::new());
static TIMED_OUT: Mutex<Vec<i32>> = Mutex::new(Vec::new());
static WATCHDOG: std::sync::Once = std::sync::Once::new();
pub static PROCESS_RUNS: AtomicU64 = AtomicU64::new(0);
/// Count every line of the subject's output as an operation (kind "out") in shim runs. Set once, by a
/// property that wants signals placed between two lines of output.
pub static COUNT_STDIO: std::sync::atomic::AtomicBool = std::sync::atomic::AtomicBool::new(false);

fn start_watchdog()
{
    WATCHDOG.call_once(|| {
        std::thread::spawn(|| loop
        {
            std::thread::sleep(Duration::from_millis(250));
            let now = Instant::now();
            let mut run = RUNNING.lock().unwrap();
            let mut i = 0;
            while i < run.len()
            {
                if run[i].1 <= now
                {
                    let pid = run[i].0;
                    unsafe {
                        libc::kill(pid, libc::SIGKILL);
                    }
                    TIMED_OUT.lock().unwrap().push(pid);
                    run.remove(i);
                }
                else
                {
                    i += 1;
                }
            }
        });
    });
}

/// Where the subject's standard output goes.
#[derive(Clone, Copy, Debug, PartialEq, Eq)]
pub enum StdoutMode
{
    /// captured (the default)
    Piped,
    /// /dev/full: every write fails with ENOSPC
    DevFull,
    /// a pipe whose reading end is already closed: every write fails with EPIPE
    ClosedPipe,
    /// descriptor 1 is closed at exec time
    Closed,
}

thread_local! {
    /// How the runs started by this thread spell the configuration path when the caller asks for the
    /// plain "Breadlog.yaml" in the working directory: 0 as given (bare file name), 1 "./Breadlog.yaml",
    /// 2 the absolute path.
    pub static CONFIG_FORM: std::cell::Cell<u8> = const { std::cell::Cell::new(0) };
    /// Give the subject a terminal (the slave side of a fresh pseudo-terminal) as standard input
    /// instead of /dev/null, for the runs started by this thread.
    pub static STDIN_TTY: std::cell::Cell<bool> = const { std::cell::Cell::new(false) };
}

/// Sets CONFIG_FORM for the current thread until dropped.
pub struct ConfigFormGuard;
impl ConfigFormGuard
{
    pub fn new(form: u8) -> ConfigFormGuard
    {
        CONFIG_FORM.with(|c| c.set(form % 3));
        ConfigFormGuard
    }
}
impl Drop for ConfigFormGuard
{
    fn drop(&mut self)
    {
        CONFIG_FORM.with(|c| c.set(0));
    }
}

/// (master, slave) of a new pseudo-terminal, both close-on-exec, the slave opened without becoming a controlling terminal.
fn open_pty() -> Option<(i32, i32)>
{
    unsafe {
        let m = libc::posix_openpt(libc::O_RDWR | libc::O_NOCTTY | libc::O_CLOEXEC);
        if m < 0
        {
            return None;
        }
        if libc::grantpt(m) != 0 || libc::unlockpt(m) != 0
        {
            libc::close(m);
            return None;
        }
        let mut name = [0 as libc::c_char; 128];
        if libc::ptsname_r(m, name.as_mut_ptr(), name.len()) != 0
        {
            libc::close(m);
            return None;
        }
        let sl = libc::open(name.as_ptr(), libc::O_RDWR | libc::O_NOCTTY | libc::O_CLOEXEC);
        if sl < 0
        {
            libc::close(m);
            return None;
        }
        Some((m, sl))
    }
}

pub fn run_breadlog(spec: &RunSpec) -> RunResult
{
    run_breadlog_with(spec, StdoutMode::Piped)
}

pub fn run_breadlog_with(spec: &RunSpec, stdout_mode: StdoutMode) -> RunResult
{
    start_watchdog();
    PROCESS_RUNS.fetch_add(1, Ordering::Relaxed);
    let mut cmd = Command::new(breadlog_bin());
    let config_arg: std::ffi::OsString = if spec.config_arg == "Breadlog.yaml"
    {
        match CONFIG_FORM.with(|c| c.get())
        {
            1 => "./Breadlog.yaml".into(),
            2 => spec.cwd.join("Breadlog.yaml").into_os_string(),
            _ => spec.config_arg.clone().into(),
        }
    }
    else
    {
        spec.config_arg.clone().into()
    };
    cmd.arg("-c").arg(&config_arg);
    if spec.check
    {
        cmd.arg("--check");
    }
    cmd.current_dir(&spec.cwd);
    cmd.env_clear();
    cmd.env("TMPDIR", &spec.tmpdir);
    cmd.env("PATH", "/usr/bin:/bin");
    cmd.env("RUST_BACKTRACE", "0");
    let trace_path = if spec.trace || spec.plan.is_some()
    {
        let n = COUNTER.fetch_add(1, Ordering::Relaxed);
        let tp = scratch_base().join(format!("blverif-trace.{}.{}", std::process::id(), n));
        let _ = fs::remove_file(&tp);
        cmd.env("LD_PRELOAD", shim_path());
        cmd.env("BLSHIM_TRACE", &tp);
        let roots: Vec<String> = spec.roots.iter().map(|r| r.to_string_lossy().to_string()).collect();
        cmd.env("BLSHIM_ROOTS", roots.join(":"));
        if COUNT_STDIO.load(Ordering::Relaxed)
        {
            cmd.env("BLSHIM_STDIO", "1");
        }
        if let Some(p) = &spec.plan
        {
            cmd.env("BLSHIM_PLAN", p);
        }
        Some(tp)
    }
    else
    {
        None
    };
    cmd.stderr(Stdio::piped());
    let mut pty_master: Option<i32> = None;
    if STDIN_TTY.with(|c| c.get())
    {
        match open_pty()
        {
            Some((m, sl)) =>
            {
                use std::os::unix::io::FromRawFd;
                pty_master = Some(m);
                cmd.stdin(unsafe { Stdio::from_raw_fd(sl) });
            },
            None => drop(cmd.stdin(Stdio::null())),
        }
    }
    else
    {
        cmd.stdin(Stdio::null());
    }
    match stdout_mode
    {
        StdoutMode::Piped | StdoutMode::Closed => drop(cmd.stdout(Stdio::piped())),
        StdoutMode::DevFull => drop(cmd.stdout(fs::OpenOptions::new().write(true).open("/dev/full").map(Stdio::from).unwrap_or_else(|_| Stdio::null()))),
        StdoutMode::ClosedPipe =>
        {
            use std::os::unix::io::FromRawFd;
            let mut fds = [0i32; 2];
            let ok = unsafe { libc::pipe2(fds.as_mut_ptr(), libc::O_CLOEXEC) } == 0;
            if ok
            {
                unsafe {
                    libc::close(fds[0]);
                    cmd.stdout(Stdio::from_raw_fd(fds[1]));
                }
            }
            else
            {
                cmd.stdout(Stdio::null());
            }
        },
    }
    let close_stdout = stdout_mode == StdoutMode::Closed;
    unsafe {
        cmd.pre_exec(move || {
            if close_stdout
            {
                libc::close(1);
            }
            // A check started from a background shell job inherits SIG_IGN for
            // SIGINT; the subject must see the default dispositions.
            libc::signal(libc::SIGINT, libc::SIG_DFL);
            libc::signal(libc::SIGTERM, libc::SIG_DFL);
            libc::signal(libc::SIGPIPE, libc::SIG_DFL);
            let mut set: libc::sigset_t = std::mem::zeroed();
            libc::sigemptyset(&mut set);
            libc::sigprocmask(libc::SIG_SETMASK, &set, std::ptr::null_mut());
            Ok(())
        });
    }
    let t0 = Instant::now();
    let mut child = cmd.spawn().expect("spawn breadlog");
    let pid = child.id() as i32;
    // the limit asked for is for an idle machine; allow three times as much before calling it a hang
    RUNNING.lock().unwrap().push((pid, t0 + spec.timeout * 3));
    let so = child.stdout.take();
    let mut se = child.stderr.take().unwrap();
    let th = std::thread::spawn(move || {
        let mut s = Vec::new();
        let _ = se.read_to_end(&mut s);
        s
    });
    let mut out = Vec::new();
    if let Some(mut so) = so
    {
        let _ = so.read_to_end(&mut out);
    }
    let err = th.join().unwrap_or_default();
    let status = child.wait().expect("wait breadlog");
    if let Some(m) = pty_master
    {
        unsafe {
            libc::close(m);
        }
    }
    let wall = t0.elapsed();
    RUNNING.lock().unwrap().retain(|(p, _)| *p != pid);
    let timed_out = {
        let mut t = TIMED_OUT.lock().unwrap();
        let was = t.contains(&pid);
        t.retain(|p| *p != pid);
        was
    };
    let exit = if timed_out
    {
        Exit::Timeout
    }
    else if let Some(c) = status.code()
    {
        Exit::Code(c)
    }
    else
    {
        Exit::Signal(status.signal().unwrap_or(0))
    };
    let stdout = String::from_utf8_lossy(&out).to_string();
    let stderr = String::from_utf8_lossy(&err).to_string();
    let trace = match &trace_path
    {
        Some(tp) =>
        {
            let t = fs::read_to_string(tp).unwrap_or_default();
            let _ = fs::remove_file(tp);
            parse_trace(&t)
        },
        None => Vec::new(),
    };
    let report = parse_report(&stdout, &stderr);
    RunResult {
        exit,
        stdout,
        stderr,
        report,
        trace,
        wall,
    }
}

/// Convenience: run in `proj` with `-c Breadlog.yaml`, TMPDIR = sandbox tmp.
pub fn simple_run(sb: &Sandbox, check: bool) -> RunResult
{
    run_breadlog(&RunSpec {
        check,
        cwd: sb.proj(),
        config_arg: "Breadlog.yaml".to_string(),
        tmpdir: sb.tmp(),
        plan: None,
        trace: false,
        roots: vec![sb.root.clone()],
        timeout: Duration::from_secs(120),
    })
}

pub fn shim_run(sb: &Sandbox, check: bool, plan: Option<String>) -> RunResult
{
    run_breadlog(&RunSpec {
        check,
        cwd: sb.proj(),
        config_arg: "Breadlog.yaml".to_string(),
        tmpdir: sb.tmp(),
        plan,
        trace: true,
        roots: vec![sb.root.clone()],
        timeout: Duration::from_secs(120),
    })
}

/// Read every regular file below `base` (relative path -> bytes).
pub fn read_files(base: &Path) -> BTreeMap<String, Vec<u8>>
{
    let snap = snapshot(base);
    snap.into_iter()
        .filter_map(|(k, e)| if e.kind == 'f' { e.content.map(|c| (k, c)) } else { None })
        .collect()
}
