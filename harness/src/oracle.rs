//! Oracles shared by several properties: insertion decomposition, position
//! model, reference-token predicate, report parsing. Nothing in here calls
//! into Breadlog or uses its regular expressions.

use serde::{Deserialize, Serialize};
use std::collections::HashSet;

#[derive(Clone, Copy, Debug, PartialEq, Eq, Hash, Serialize, Deserialize)]
pub enum TokKind
{
    /// `[ref: N] `
    Msg,
    /// `ref = N; `
    KvSemi,
    /// `ref = N, `
    KvComma,
}

#[derive(Clone, Debug, PartialEq, Eq, Serialize, Deserialize)]
pub struct Insertion
{
    /// Offset in the ORIGINAL content in front of which the token was inserted.
    pub offset: usize,
    /// Offset of the token in the NEW content.
    pub new_offset: usize,
    /// The digits as written.
    pub digits: String,
    pub kind: TokKind,
    pub len: usize,
}

impl Insertion
{
    /// Numeric value; `None` when it does not fit in u128 (never in practice).
    pub fn value(&self) -> Option<u128>
    {
        self.digits.parse::<u128>().ok()
    }
}

/// Is there a reference token (of any style) at `b[j..]`? Returns (length, digits, kind).
pub fn token_at(b: &[u8], j: usize) -> Option<(usize, String, TokKind)>
{
    let rest = &b[j..];
    let (start, msg) = if rest.starts_with(b"[ref: ")
    {
        (6, true)
    }
    else if rest.starts_with(b"ref = ")
    {
        (6, false)
    }
    else
    {
        return None;
    };
    let mut k = start;
    while k < rest.len() && rest[k].is_ascii_digit()
    {
        k += 1;
    }
    if k == start
    {
        return None;
    }
    let digits = String::from_utf8_lossy(&rest[start..k]).to_string();
    if msg
    {
        if rest[k..].starts_with(b"] ")
        {
            return Some((k + 2, digits, TokKind::Msg));
        }
        None
    }
    else if rest[k..].starts_with(b"; ")
    {
        Some((k + 2, digits, TokKind::KvSemi))
    }
    else if rest[k..].starts_with(b", ")
    {
        Some((k + 2, digits, TokKind::KvComma))
    }
    else
    {
        None
    }
}

/// Decide whether `new` is `orig` plus inserted reference tokens and nothing
/// else. Exact (backtracking with memoised choice points), earliest insertion
/// preferred when a token could also be matched against identical original
/// bytes.
pub fn decompose(orig: &[u8], new: &[u8]) -> Result<Vec<Insertion>, String>
{
    if orig == new
    {
        return Ok(Vec::new());
    }
    if new.len() < orig.len()
    {
        return Err(format!(
            "new content is shorter than the original ({} < {} bytes)",
            new.len(),
            orig.len()
        ));
    }
    let mut ins: Vec<Insertion> = Vec::new();
    // choice points: (i, j, ins.len()) where "insert" was taken and "match" is still open
    let mut stack: Vec<(usize, usize, usize)> = Vec::new();
    let mut seen: HashSet<(usize, usize)> = HashSet::new();
    let (mut i, mut j) = (0usize, 0usize);
    let mut force_match = false;
    let mut furthest = (0usize, 0usize);
    loop
    {
        if j > furthest.1
        {
            furthest = (i, j);
        }
        let mut failed = false;
        if j == new.len()
        {
            if i == orig.len()
            {
                return Ok(ins);
            }
            failed = true;
        }
        else
        {
            let tok = if force_match { None } else { token_at(new, j) };
            let can_match = i < orig.len() && orig[i] == new[j];
            if let Some((len, digits, kind)) = tok
            {
                let fresh = if can_match { seen.insert((i, j)) } else { true };
                if fresh
                {
                    if can_match
                    {
                        stack.push((i, j, ins.len()));
                    }
                    ins.push(Insertion {
                        offset: i,
                        new_offset: j,
                        digits,
                        kind,
                        len,
                    });
                    j += len;
                }
                else
                {
                    failed = true;
                }
            }
            else if can_match
            {
                i += 1;
                j += 1;
                force_match = false;
            }
            else
            {
                failed = true;
            }
        }
        if failed
        {
            match stack.pop()
            {
                None =>
                {
                    let (fi, fj) = furthest;
                    let ctx_o = String::from_utf8_lossy(&orig[fi.min(orig.len())..(fi + 40).min(orig.len())])
                        .to_string();
                    let ctx_n = String::from_utf8_lossy(&new[fj.min(new.len())..(fj + 40).min(new.len())])
                        .to_string();
                    return Err(format!(
                        "not an insertion-only edit: first divergence near original offset {} ({:?}) / new offset {} ({:?})",
                        fi, ctx_o, fj, ctx_n
                    ));
                },
                Some((ci, cj, n)) =>
                {
                    ins.truncate(n);
                    i = ci;
                    j = cj;
                    force_match = true;
                },
            }
        }
    }
}

/// 1-based (line, column-in-characters) of a byte offset. `\n` ends a line;
/// `\r` is an ordinary character of the line it is on. The offset must be on
/// a character boundary for the result to be meaningful; invalid UTF-8 is
/// counted byte-wise for the bytes that are not continuation bytes.
pub fn line_col(content: &[u8], offset: usize) -> (usize, usize)
{
    let upto = &content[..offset.min(content.len())];
    let mut line = 1usize;
    let mut line_start = 0usize;
    for (idx, b) in upto.iter().enumerate()
    {
        if *b == b'\n'
        {
            line += 1;
            line_start = idx + 1;
        }
    }
    let col = upto[line_start..].iter().filter(|b| (**b & 0xC0) != 0x80).count() + 1;
    (line, col)
}

/// The documented reference-token rule, written by hand:
/// `[ref: ` + 1..=10 ASCII digits + `]`, value <= 4294967295, at the very start.
pub fn valid_token(s: &str) -> Option<u32>
{
    let b = s.as_bytes();
    if !b.starts_with(b"[ref: ")
    {
        return None;
    }
    let mut k = 6;
    let mut v: u64 = 0;
    while k < b.len() && b[k].is_ascii_digit() && k - 6 < 10
    {
        v = v * 10 + (b[k] - b'0') as u64;
        k += 1;
    }
    if k == 6 || k >= b.len() || b[k] != b']'
    {
        return None;
    }
    if v > u32::MAX as u64
    {
        return None;
    }
    Some(v as u32)
}

/// The documented *extraction* regex `\[ref: ([0-9]{1,10})\]`, unanchored,
/// first match, written by hand.
pub fn doc_regex_extract(s: &str) -> Option<String>
{
    let b = s.as_bytes();
    let mut p = 0;
    while p + 6 <= b.len()
    {
        if b[p..].starts_with(b"[ref: ")
        {
            let mut k = p + 6;
            while k < b.len() && b[k].is_ascii_digit() && k - (p + 6) < 10
            {
                k += 1;
            }
            if k > p + 6 && k < b.len() && b[k] == b']'
            {
                return Some(String::from_utf8_lossy(&b[p + 6..k]).to_string());
            }
        }
        p += 1;
    }
    None
}

/// Remove whitespace and comments outside string literals: the token
/// sequence of a statement in a layout-independent form. String literals are
/// copied verbatim (escape aware).
pub fn squash(text: &str) -> String
{
    let b = text.as_bytes();
    let mut out: Vec<u8> = Vec::with_capacity(b.len());
    let mut i = 0;
    while i < b.len()
    {
        let c = b[i];
        if c == b'"'
        {
            out.push(c);
            i += 1;
            while i < b.len()
            {
                out.push(b[i]);
                if b[i] == b'\\' && i + 1 < b.len()
                {
                    out.push(b[i + 1]);
                    i += 2;
                    continue;
                }
                if b[i] == b'"'
                {
                    i += 1;
                    break;
                }
                i += 1;
            }
        }
        else if c == b'/' && i + 1 < b.len() && b[i + 1] == b'/'
        {
            while i < b.len() && b[i] != b'\n'
            {
                i += 1;
            }
        }
        else if c == b'/' && i + 1 < b.len() && b[i + 1] == b'*'
        {
            i += 2;
            while i + 1 < b.len() && !(b[i] == b'*' && b[i + 1] == b'/')
            {
                i += 1;
            }
            i = (i + 2).min(b.len());
        }
        else if c == b' ' || c == b'\t' || c == b'\n' || c == b'\r'
        {
            i += 1;
        }
        else if c == 0xE2 && i + 2 < b.len() && b[i + 1] == 0x80 && (b[i + 2] == 0x8E || b[i + 2] == 0x8F)
        {
            // LEFT-TO-RIGHT / RIGHT-TO-LEFT MARK: white space for Rust's lexer
            i += 3;
        }
        else
        {
            out.push(c);
            i += 1;
        }
    }
    String::from_utf8_lossy(&out).to_string()
}

// ---------------------------------------------------------------- report parsing

#[derive(Clone, Debug, Default, PartialEq, Eq)]
pub struct Report
{
    /// (path as printed, line, column)
    pub missing: Vec<(String, usize, usize)>,
    pub unusable: Vec<(String, usize, usize)>,
    /// per-file totals (path, n)
    pub file_totals: Vec<(String, u64)>,
    pub grand_total: Option<u64>,
    pub inserted: Option<u64>,
    /// files named in a "Failed to read file" line
    pub unreadable: Vec<String>,
    pub panicked: bool,
    pub found_files: Option<u64>,
}

fn after<'a>(line: &'a str, marker: &str) -> Option<&'a str>
{
    line.find(marker).map(|p| &line[p + marker.len()..])
}

fn parse_loc(rest: &str) -> Option<(String, usize, usize)>
{
    // "<path>, line L, column C"
    let p = rest.rfind(", line ")?;
    let path = rest[..p].to_string();
    let tail = &rest[p + 7..];
    let q = tail.find(", column ")?;
    let line = tail[..q].trim().parse().ok()?;
    let col = tail[q + 9..].trim().parse().ok()?;
    Some((path, line, col))
}

pub fn parse_report(stdout: &str, stderr: &str) -> Report
{
    let mut r = Report::default();
    for line in stdout.lines().chain(stderr.lines())
    {
        if let Some(rest) = after(line, "Missing reference in file ")
        {
            if let Some(loc) = parse_loc(rest)
            {
                r.missing.push(loc);
            }
        }
        else if let Some(rest) = after(line, "Unusable reference will be ignored in file ")
        {
            if let Some(loc) = parse_loc(rest)
            {
                r.unusable.push(loc);
            }
        }
        else if let Some(rest) = after(line, "Total missing references (all files): ")
        {
            r.grand_total = rest.trim().parse().ok();
        }
        else if let Some(rest) = after(line, "Total missing references in ")
        {
            if let Some(p) = rest.rfind(": ")
            {
                if let Ok(n) = rest[p + 2..].trim().parse()
                {
                    r.file_totals.push((rest[..p].to_string(), n));
                }
            }
        }
        else if let Some(rest) = after(line, "Num. inserted reference(s): ")
        {
            r.inserted = rest.trim().parse().ok();
        }
        else if let Some(rest) = after(line, "Failed to read file ")
        {
            if let Some(p) = rest.find(": ")
            {
                r.unreadable.push(rest[..p].to_string());
            }
        }
        else if let Some(rest) = after(line, "] Found ")
        {
            if let Some(p) = rest.find(" file(s)")
            {
                r.found_files = rest[..p].trim().parse().ok();
            }
        }
        if line.contains("panicked at") || line.contains("stack overflow") || line.contains("RUST_BACKTRACE")
        {
            r.panicked = true;
        }
    }
    r
}

#[cfg(test)]
mod tests
{
    use super::*;

    #[test]
    fn decompose_basic()
    {
        let o = b"info!(\"hello\"); info!(\"[ref: 1] [ref: 1] x\")";
        let n = b"info!(\"[ref: 12] hello\"); info!(\"[ref: 1] [ref: 1] x\")";
        let d = decompose(o, n).unwrap();
        assert_eq!(d.len(), 1);
        assert_eq!(d[0].offset, 7);
        assert_eq!(d[0].digits, "12");
        assert!(decompose(o, b"info!(\"[ref: 12] hallo\"); info!(\"[ref: 1] [ref: 1] x\")").is_err());
        assert!(decompose(b"ab", b"a").is_err());
        let d = decompose(b"x([ref: 1] a)", b"x([ref: 1] [ref: 1] a)").unwrap();
        assert_eq!(d.len(), 1);
        let d = decompose(b"f(a = 1; \"m\")", b"f(ref = 3, a = 1; \"m\")").unwrap();
        assert_eq!(d[0].kind, TokKind::KvComma);
        // token text present in the original and unchanged
        assert_eq!(decompose(b"[ref: 1] x", b"[ref: 1] x").unwrap().len(), 0);
        // needs backtracking: the new content starts with a token that is original text
        let d = decompose(b"[ref: 1] x\"\"", b"[ref: 1] x\"[ref: 2] \"").unwrap();
        assert_eq!(d.len(), 1);
        assert_eq!(d[0].offset, 11);
    }

    #[test]
    fn positions()
    {
        assert_eq!(line_col(b"ab\ncd", 4), (2, 2));
        assert_eq!(line_col("é\tx".as_bytes(), 3), (1, 3));
        assert_eq!(line_col(b"a\r\nb", 3), (2, 1));
    }

    #[test]
    fn tokens()
    {
        assert_eq!(valid_token("[ref: 1]"), Some(1));
        assert_eq!(valid_token("[ref: 4294967295] x"), Some(u32::MAX));
        assert_eq!(valid_token("[ref: 4294967296]"), None);
        assert_eq!(valid_token("[ref: 00000000001]"), None);
        assert_eq!(valid_token("[ref: 0000000001]"), Some(1));
        assert_eq!(valid_token("[ref: ]"), None);
        assert_eq!(valid_token(" [ref: 1]"), None);
        assert_eq!(doc_regex_extract("x [ref: 12] y"), Some("12".into()));
        assert_eq!(squash("info!( /* c */ a = 1 , // x\n \"m // y\" )"), "info!(a=1,\"m // y\")");
    }
}
