//! Comparison of what Breadlog did (parser entries, check report, edit result)
//! with the reference model of a rendered file.

use crate::engine::{dev, Deviation};
use crate::gen::{ConfigSpec, Expect, Rendered, StmtInfo, BEFORE};
use crate::oracle::{decompose, line_col, squash, Insertion, TokKind};
use breadlog::verif::Entry;

pub fn tok_text(kind: TokKind, id: &str) -> String
{
    match kind
    {
        TokKind::Msg => format!("[ref: {}] ", id),
        TokKind::KvSemi => format!("ref = {}; ", id),
        TokKind::KvComma => format!("ref = {}, ", id),
    }
}

fn ctx_sig(s: &StmtInfo) -> &'static str
{
    let b = BEFORE[s.spec.before % BEFORE.len()];
    let t = b.trim_end();
    if b.ends_with(' ') && t.chars().last().map(|c| c.is_alphanumeric() || c == '_').unwrap_or(false)
    {
        ":after-identifier"
    }
    else
    {
        ""
    }
}

/// Does inserting `token` at absolute offset `off` into the statement give the
/// token sequence the model wants (ref first, after any target)?
fn kv_position_ok(text: &str, s: &StmtInfo, off: usize, token: &str) -> Result<(), String>
{
    if off <= s.start || off > s.end || !text.is_char_boundary(off)
    {
        return Err(format!("insertion offset {} outside statement {}..{}", off, s.start, s.end));
    }
    let stmt = &text[s.start..s.end];
    let rel = off - s.start;
    let edited = format!("{}{}{}", &stmt[..rel], token, &stmt[rel..]);
    let got = squash(&edited);
    let orig_sq = squash(stmt);
    let head = &s.expected_kv_squash_prefix;
    let want = format!("{}{}{}", head, squash(token), &orig_sq[head.len()..]);
    if got == want
    {
        Ok(())
    }
    else
    {
        Err(format!("edited statement reads {:?}, the model wants {:?}", got, want))
    }
}

fn kv_sig(text: &str, s: &StmtInfo, off: usize) -> String
{
    if s.has_target && off == s.paren + 1
    {
        "kv-insert-before-target".to_string()
    }
    else if off > s.start && off <= s.end && text.is_char_boundary(off) && {
        // inside a comment?
        let before = &text[s.start..off];
        let open_block = before.rfind("/*").map(|p| before[p..].find("*/").is_none()).unwrap_or(false);
        let open_line = before.rfind("//").map(|p| !before[p..].contains('\n')).unwrap_or(false);
        open_block || open_line
    }
    {
        "kv-insert-inside-comment".to_string()
    }
    else
    {
        "kv-insert-position".to_string()
    }
}

/// Compare parser entries (through the hook) with the model.
/// For a `non-literal-target` item (`name!(target: <expr>, "<msg>");`): the byte range, relative to
/// the item's start, in which a reference may be inserted IF the tool treats it as a statement:
/// (first position after the comma that ends the target argument, first position inside the message
/// literal). A message-prefix token has to sit exactly at the second value, a key-value token
/// anywhere from the first value up to the literal's opening quote.
pub fn optional_window(item: &str) -> Option<(usize, usize)>
{
    let q = item.rfind(", \"")? + 2;
    Some((q - 1, q + 1))
}

fn optional_ok(item: &str, rel: usize, kind: Option<TokKind>) -> bool
{
    match optional_window(item)
    {
        Some((lo, hi)) => match kind
        {
            Some(TokKind::Msg) => rel == hi,
            Some(_) => rel >= lo && rel < hi,
            None => rel >= lo && rel <= hi,
        },
        None => false,
    }
}

pub fn check_entries(r: &Rendered, _cfg: &ConfigSpec, entries: &[Entry]) -> Vec<Deviation>
{
    let mut out = Vec::new();
    let bytes = r.text.as_bytes();
    let mut claimed = vec![false; entries.len()];
    for s in &r.stmts
    {
        let mine: Vec<(usize, &Entry)> = entries
            .iter()
            .enumerate()
            .filter(|(_, e)| e.offset > s.start && e.offset <= s.end)
            .collect();
        for (i, _) in &mine
        {
            claimed[*i] = true;
        }
        let here = format!("statement {:?}", &r.text[s.start..s.end]);
        match &s.expect
        {
            Expect::Ignored =>
            {
                if !mine.is_empty()
                {
                    out.push(dev(
                        "ignore-directive-not-honoured",
                        format!("{} is under breadlog:ignore but was recognised: {:?}", here, mine[0].1),
                    ));
                }
            },
            other =>
            {
                if mine.is_empty()
                {
                    let sig = format!("stmt-not-recognised{}", ctx_sig(s));
                    out.push(dev(
                        &sig,
                        format!(
                            "{} (preceded on its line by {:?}) was not recognised",
                            here,
                            BEFORE[s.spec.before % BEFORE.len()]
                        ),
                    ));
                    continue;
                }
                if mine.len() > 1
                {
                    out.push(dev(
                        "stmt-multiple-entries",
                        format!("{} produced {} entries", here, mine.len()),
                    ));
                    continue;
                }
                let e = mine[0].1;
                let (l, c) = line_col(bytes, e.offset);
                if (e.line, e.column) != (l, c)
                {
                    out.push(dev(
                        "position-line-col",
                        format!(
                            "{}: entry at byte {} reports line {}, column {}; the position model gives {}, {}",
                            here, e.offset, e.line, e.column, l, c
                        ),
                    ));
                }
                match other
                {
                    Expect::HasRef(n) =>
                    {
                        if e.reference != Some(*n) || !e.usable
                        {
                            out.push(dev(
                                "existing-ref-not-read",
                                format!("{}: expected existing reference {}, parser says {:?} usable={}", here, n, e.reference, e.usable),
                            ));
                        }
                    },
                    Expect::Unusable =>
                    {
                        if e.reference.is_some() || e.usable
                        {
                            out.push(dev(
                                "unusable-ref-misclassified",
                                format!("{}: expected an unusable `ref` value, parser says {:?} usable={}", here, e.reference, e.usable),
                            ));
                        }
                    },
                    Expect::Missing { kind, msg_offset } =>
                    {
                        if e.reference.is_some() || !e.usable
                        {
                            out.push(dev(
                                "missing-ref-misclassified",
                                format!("{}: expected a missing reference, parser says {:?} usable={}", here, e.reference, e.usable),
                            ));
                            continue;
                        }
                        let want_tok = tok_text(*kind, "7");
                        if e.token_for_7 != want_tok
                        {
                            out.push(dev(
                                "token-text",
                                format!("{}: would insert {:?}, the model wants {:?}", here, e.token_for_7, want_tok),
                            ));
                            continue;
                        }
                        match kind
                        {
                            TokKind::Msg =>
                            {
                                if e.offset != *msg_offset
                                {
                                    out.push(dev(
                                        "msg-insert-position",
                                        format!("{}: insertion offset {} but the message literal starts at {}", here, e.offset, msg_offset),
                                    ));
                                }
                            },
                            _ =>
                            {
                                if let Err(m) = kv_position_ok(&r.text, s, e.offset, &want_tok)
                                {
                                    out.push(dev(&kv_sig(&r.text, s, e.offset), format!("{}: {}", here, m)));
                                }
                            },
                        }
                    },
                    Expect::Ignored => unreachable!(),
                }
            },
        }
    }
    for (i, e) in entries.iter().enumerate()
    {
        if claimed[i]
        {
            continue;
        }
        let d = r.decoys.iter().find(|(a, b, _)| e.offset >= *a && e.offset <= *b);
        match d
        {
            Some((a, b, k)) if *k == "non-literal-target" =>
            {
                let kind = if e.token_for_7.starts_with('[') { TokKind::Msg } else { TokKind::KvSemi };
                if !optional_ok(&r.text[*a..*b], e.offset - *a, Some(kind))
                {
                    out.push(dev(
                        "non-literal-target-reference-misplaced",
                        format!("{:?} was taken as a statement, but its reference position is byte {} of it ({:?}); allowed: {:?}", &r.text[*a..*b], e.offset - *a, e, optional_window(&r.text[*a..*b])),
                    ));
                }
            },
            Some((a, b, k)) => out.push(dev(
                &format!("decoy-recognised:{}", k),
                format!("decoy {:?} was recognised as a log statement: {:?}", &r.text[*a..*b], e),
            )),
            None => out.push(dev(
                "extra-entry",
                format!(
                    "entry outside every statement: {:?} near {:?}",
                    e,
                    crate::engine::truncate(&r.text[floor_cb(&r.text, e.offset.saturating_sub(20))..], 60)
                ),
            )),
        }
    }
    out
}

fn floor_cb(s: &str, mut i: usize) -> usize
{
    i = i.min(s.len());
    while !s.is_char_boundary(i)
    {
        i -= 1;
    }
    i
}

/// Compare the result of an edit run on one modelled file with the model.
/// Returns (deviations, insertions).
pub fn check_edit(r: &Rendered, new: &[u8]) -> (Vec<Deviation>, Vec<Insertion>)
{
    let mut out = Vec::new();
    let orig = r.text.as_bytes();
    let ins = match decompose(orig, new)
    {
        Ok(i) => i,
        Err(m) =>
        {
            out.push(dev("not-insertion-only", m));
            return (out, Vec::new());
        },
    };
    let mut claimed = vec![false; ins.len()];
    for s in &r.stmts
    {
        let mine: Vec<(usize, &Insertion)> = ins
            .iter()
            .enumerate()
            .filter(|(_, i)| i.offset > s.start && i.offset <= s.end)
            .collect();
        for (i, _) in &mine
        {
            claimed[*i] = true;
        }
        let here = format!("statement {:?}", &r.text[s.start..s.end]);
        match &s.expect
        {
            Expect::Ignored | Expect::HasRef(_) | Expect::Unusable =>
            {
                if !mine.is_empty()
                {
                    let sig = match &s.expect
                    {
                        Expect::Ignored => "edit-touched-ignored-stmt",
                        Expect::HasRef(_) => "edit-touched-referenced-stmt",
                        _ => "edit-touched-unusable-stmt",
                    };
                    out.push(dev(
                        sig,
                        format!("{} (model: {:?}) received {:?}", here, s.expect, mine[0].1),
                    ));
                }
            },
            Expect::Missing { kind, msg_offset } =>
            {
                if mine.is_empty()
                {
                    out.push(dev(
                        &format!("stmt-not-edited{}", ctx_sig(s)),
                        format!("{} lacks a reference but received none", here),
                    ));
                    continue;
                }
                if mine.len() > 1
                {
                    out.push(dev("stmt-edited-twice", format!("{} received {} tokens", here, mine.len())));
                    continue;
                }
                let i = mine[0].1;
                if i.kind != *kind
                {
                    out.push(dev(
                        "token-kind",
                        format!("{}: inserted {:?} token, the model wants {:?}", here, i.kind, kind),
                    ));
                    continue;
                }
                match kind
                {
                    TokKind::Msg =>
                    {
                        if i.offset != *msg_offset
                        {
                            out.push(dev(
                                "msg-insert-position",
                                format!("{}: inserted at {} but the message literal starts at {}", here, i.offset, msg_offset),
                            ));
                        }
                    },
                    _ =>
                    {
                        let tok = tok_text(*kind, &i.digits);
                        if let Err(m) = kv_position_ok(&r.text, s, i.offset, &tok)
                        {
                            out.push(dev(&kv_sig(&r.text, s, i.offset), format!("{}: {}", here, m)));
                        }
                    },
                }
            },
        }
    }
    for (k, i) in ins.iter().enumerate()
    {
        if claimed[k]
        {
            continue;
        }
        let d = r.decoys.iter().find(|(a, b, _)| i.offset >= *a && i.offset <= *b);
        match d
        {
            Some((a, b, kind)) if *kind == "non-literal-target" =>
            {
                if !optional_ok(&r.text[*a..*b], i.offset - *a, Some(i.kind))
                {
                    out.push(dev(
                        "non-literal-target-reference-misplaced",
                        format!("{:?} received {:?}; allowed positions inside it: {:?}", &r.text[*a..*b], i, optional_window(&r.text[*a..*b])),
                    ));
                }
            },
            Some((a, b, kind)) => out.push(dev(
                &format!("decoy-edited:{}", kind),
                format!("decoy {:?} received {:?}", &r.text[*a..*b], i),
            )),
            None => out.push(dev(
                "extra-insertion",
                format!("token inserted outside every statement: {:?}", i),
            )),
        }
    }
    (out, ins)
}

/// Byte offset of a 1-based (line, character column).
pub fn offset_of(text: &[u8], line: usize, col: usize) -> Option<usize>
{
    let mut l = 1;
    let mut i = 0;
    while l < line
    {
        match text[i..].iter().position(|b| *b == b'\n')
        {
            Some(p) => i += p + 1,
            None => return None,
        }
        l += 1;
    }
    let mut c = 1;
    while c < col
    {
        if i >= text.len() || text[i] == b'\n'
        {
            return None;
        }
        i += 1;
        while i < text.len() && (text[i] & 0xC0) == 0x80
        {
            i += 1;
        }
        c += 1;
    }
    Some(i)
}

/// Compare a check-mode report for one modelled file with the model.
/// `missing` / `unusable` are the (line, column) pairs reported for this file.
pub fn check_report(r: &Rendered, missing: &[(usize, usize)], unusable: &[(usize, usize)]) -> Vec<Deviation>
{
    let mut out = Vec::new();
    let bytes = r.text.as_bytes();
    let to_off = |lc: &(usize, usize)| offset_of(bytes, lc.0, lc.1);
    let mut miss_claimed = vec![false; missing.len()];
    let mut unus_claimed = vec![false; unusable.len()];
    for s in &r.stmts
    {
        let in_span = |o: Option<usize>| o.map(|o| o > s.start && o <= s.end).unwrap_or(false);
        let m: Vec<usize> = (0..missing.len()).filter(|i| in_span(to_off(&missing[*i]))).collect();
        let u: Vec<usize> = (0..unusable.len()).filter(|i| in_span(to_off(&unusable[*i]))).collect();
        for i in &m
        {
            miss_claimed[*i] = true;
        }
        for i in &u
        {
            unus_claimed[*i] = true;
        }
        let here = format!("statement {:?}", &r.text[s.start..s.end]);
        match &s.expect
        {
            Expect::Ignored | Expect::HasRef(_) =>
            {
                if !m.is_empty() || !u.is_empty()
                {
                    out.push(dev(
                        if s.expect == Expect::Ignored { "check-reported-ignored-stmt" } else { "check-reported-referenced-stmt" },
                        format!("{} (model: {:?}) was reported by --check", here, s.expect),
                    ));
                }
            },
            Expect::Unusable =>
            {
                if !m.is_empty()
                {
                    out.push(dev(
                        "unusable-reported-as-missing",
                        format!("{} has an unusable `ref` value but was reported as missing", here),
                    ));
                }
                if u.len() != 1
                {
                    out.push(dev(
                        "unusable-not-reported",
                        format!("{} has an unusable `ref` value; {} 'Unusable reference' lines point at it", here, u.len()),
                    ));
                }
            },
            Expect::Missing { kind, msg_offset } =>
            {
                if m.len() != 1 || !u.is_empty()
                {
                    out.push(dev(
                        &format!("missing-not-reported{}", ctx_sig(s)),
                        format!("{} lacks a reference; --check reported it {} time(s) as missing, {} as unusable", here, m.len(), u.len()),
                    ));
                    continue;
                }
                if *kind == TokKind::Msg
                {
                    let want = line_col(bytes, *msg_offset);
                    if missing[m[0]] != want
                    {
                        out.push(dev(
                            "check-position",
                            format!("{}: reported at line {}, column {}; the message literal starts at line {}, column {}", here, missing[m[0]].0, missing[m[0]].1, want.0, want.1),
                        ));
                    }
                }
            },
        }
    }
    for (i, lc) in missing.iter().enumerate()
    {
        if !miss_claimed[i]
        {
            let off = to_off(lc);
            let d = off.and_then(|o| r.decoys.iter().find(|(a, b, _)| o >= *a && o <= *b));
            match d
            {
                Some((a, b, k)) if *k == "non-literal-target" =>
                {
                    if !optional_ok(&r.text[*a..*b], off.unwrap_or(0) - *a, None)
                    {
                        out.push(dev(
                            "non-literal-target-reference-misplaced",
                            format!("{:?} reported as lacking a reference at byte {} of it; allowed: {:?}", &r.text[*a..*b], off.unwrap_or(0) - *a, optional_window(&r.text[*a..*b])),
                        ));
                    }
                },
                Some((a, b, k)) => out.push(dev(
                    &format!("decoy-reported:{}", k),
                    format!("decoy {:?} reported as missing a reference", &r.text[*a..*b]),
                )),
                None => out.push(dev(
                    "extra-report",
                    format!("--check reported line {}, column {} which is not inside any statement", lc.0, lc.1),
                )),
            }
        }
    }
    for (i, lc) in unusable.iter().enumerate()
    {
        if !unus_claimed[i]
        {
            out.push(dev(
                "extra-unusable-report",
                format!("'Unusable reference' at line {}, column {} is not inside any statement", lc.0, lc.1),
            ));
        }
    }
    out
}
