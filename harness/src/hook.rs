//! Panic-safe wrappers around Breadlog's library hooks: a panic inside the
//! subject is evidence about the subject, not a harness error.

use breadlog::verif::Entry;

fn msg_of(e: Box<dyn std::any::Any + Send>) -> String
{
    if let Some(s) = e.downcast_ref::<String>()
    {
        s.clone()
    }
    else if let Some(s) = e.downcast_ref::<&str>()
    {
        s.to_string()
    }
    else
    {
        "panic".to_string()
    }
}

pub fn find(code: &str, structured: bool, macros: &[(String, String)]) -> Result<Vec<Entry>, String>
{
    std::panic::catch_unwind(|| breadlog::verif::find(code, structured, macros)).map_err(msg_of)
}

pub fn extract_reference(s: &str) -> Result<Option<u32>, String>
{
    std::panic::catch_unwind(|| breadlog::verif::extract_reference(s)).map_err(msg_of)
}

/// Install a panic hook that keeps stderr quiet (messages are reported through the outcome instead).
pub fn quiet_panics()
{
    std::panic::set_hook(Box::new(|_| {}));
}
