//! Panic-safe and hang-safe wrappers around Breadlog's library hooks: a panic
//! inside the subject is evidence about the subject, not a harness error, and
//! an in-process call that does not return is reported as a hang suspect
//! (inconclusive) instead of hanging the check.

use breadlog::verif::Entry;
use std::cell::RefCell;
use std::sync::mpsc::{channel, Receiver, RecvTimeoutError, Sender};
use std::time::Duration;

/// wall-clock limit of one in-process parser call; generous, because the machine may be shared with other
/// 16-thread checks (an input that needs 2 s alone was seen to need 60 s under a load of 40)
pub const HOOK_TIMEOUT_S: u64 = 300;

fn msg_of(e: Box<dyn std::any::Any + Send>) -> String
{
    if let Some(s) = e.downcast_ref::<String>()
    {
        s.clone()
    }
    else if let Some(s) = e.downcast_ref::<&str>()
    {
        s.to_string()
    }
    else
    {
        "panic".to_string()
    }
}

type Job = (String, bool, Vec<(String, String)>);

struct Worker
{
    tx: Sender<Job>,
    rx: Receiver<Result<Vec<Entry>, String>>,
}

fn spawn_worker() -> Worker
{
    let (tx, jrx) = channel::<Job>();
    let (rtx, rx) = channel::<Result<Vec<Entry>, String>>();
    std::thread::spawn(move || {
        while let Ok((code, structured, macros)) = jrx.recv()
        {
            let r = std::panic::catch_unwind(|| breadlog::verif::find(&code, structured, &macros)).map_err(msg_of);
            if rtx.send(r).is_err()
            {
                break;
            }
        }
    });
    Worker { tx, rx }
}

thread_local! {
    static WORKER: RefCell<Option<Worker>> = RefCell::new(None);
}

pub fn is_timeout(m: &str) -> bool
{
    m.starts_with("TIMEOUT:")
}

/// Run the parser in a helper thread; give up (and abandon that thread) after HOOK_TIMEOUT_S.
pub fn find(code: &str, structured: bool, macros: &[(String, String)]) -> Result<Vec<Entry>, String>
{
    WORKER.with(|w| {
        let mut w = w.borrow_mut();
        if w.is_none()
        {
            *w = Some(spawn_worker());
        }
        let worker = w.as_ref().unwrap();
        if worker.tx.send((code.to_string(), structured, macros.to_vec())).is_err()
        {
            *w = None;
            return Err("TIMEOUT: parser worker is gone".to_string());
        }
        match worker.rx.recv_timeout(Duration::from_secs(HOOK_TIMEOUT_S))
        {
            Ok(r) => r,
            Err(RecvTimeoutError::Timeout) =>
            {
                *w = None; // abandon the stuck thread
                Err(format!("TIMEOUT: the in-process parser did not return within {} s on a {}-byte input", HOOK_TIMEOUT_S, code.len()))
            },
            Err(RecvTimeoutError::Disconnected) =>
            {
                *w = None;
                Err("TIMEOUT: parser worker died".to_string())
            },
        }
    })
}

pub fn extract_reference(s: &str) -> Result<Option<u32>, String>
{
    std::panic::catch_unwind(|| breadlog::verif::extract_reference(s)).map_err(msg_of)
}

/// Install a panic hook that keeps stderr quiet (messages are reported through the outcome instead).
pub fn quiet_panics()
{
    std::panic::set_hook(Box::new(|_| {}));
}
