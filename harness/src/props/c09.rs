//! C09: edits preserve program behaviour apart from the added reference.
//! Generated programs are edited by Breadlog, both versions are compiled
//! against the real `log` crate (feature kv) and executed with a capturing
//! logger; the record sequences are compared.

use crate::engine::{hash_of, pbt_opts, CaseOutcome, Env, Recorder};
use crate::gen::ConfigSpec;
use crate::gen::MacroCfg;
use crate::oracle::{decompose, doc_regex_extract, TokKind};
use crate::sandbox::*;
use proptest::collection::vec;
use proptest::prelude::*;
use serde::{Deserialize, Serialize};
use serde_json::json;

#[derive(Clone, Debug, PartialEq, Eq, Hash, Serialize, Deserialize)]
pub struct PStmt
{
    pub level: u8,
    pub qualified: bool,
    pub target: Option<u8>,
    /// indices into KVS (distinct keys enforced at render time)
    pub kvs: Vec<u8>,
    pub existing_ref: Option<u32>,
    /// message pieces (indices into PIECES)
    pub pieces: Vec<u8>,
    pub gaps: Vec<u8>,
    /// 0 none 1 ignore 2 no-kvp
    pub directive: u8,
    pub trailing_comma: bool,
    /// syntactic context the statement is placed in (index into CONTEXTS9)
    #[serde(default)]
    pub context: u8,
    /// carry a `ref` key-value whose value is not an integer literal (`ref = n`): Breadlog must leave it alone
    #[serde(default)]
    pub unusable_ref: bool,
}

/// (text before, text after): every context executes the statement exactly once
const CONTEXTS9: &[(&str, &str)] = &[
    ("", ";"),
    ("if n > 0 { ", " }"),
    ("if n < 0 { } else { ", "; }"),
    ("match n { _ => ", ", }"),
    ("(|| ", ")();"),
    ("{ ", "; }"),
    ("let _unit = ", ";"),
    ("for _i in 0..1 { ", " }"),
    ("loop { ", "; break; }"),
    ("let _ = Some(n).map(|_v| ", ");"),
    // the token after the statement's `;` is a string literal
    ("let _tail: &str = { ", "; \"up\" };"),
    ("", "; let _lit = (\"plain literal\", 1);"),
    ("", "; \"literal expression statement\";"),
];

#[derive(Clone, Debug, PartialEq, Eq, Hash, Serialize, Deserialize)]
pub struct Program
{
    pub structured: bool,
    pub stmts: Vec<PStmt>,
}

const LEVELS: &[&str] = &["info", "warn", "error", "debug", "trace"];
const TARGETS9: &[&str] = &["t1", "app::net", "a,b", "x;y z"];
/// non-literal target expressions (valid for the log crate; documented as not recognised by Breadlog,
/// so such statements must simply stay as they are - or, if a version does edit them, still behave)
const TARGET_EXPRS9: &[&str] = &["TGT", "tf(n, \"app::misc\")", "module_path!()", "tf(n, \"a;b\")"];
/// (source text of the pair, key)
const KVS: &[(&str, &str)] = &[
    ("k1 = n", "k1"),
    ("k2 = s", "k2"),
    ("k3 = p.x", "k3"),
    ("count = 42", "count"),
    ("lit = \"a;b,c\"", "lit"),
    ("len = s.len()", "len"),
    ("n", "n"),
    ("s", "s"),
    ("p:?", "p"),
    ("p:%", "p"),
    ("dbg:? = p", "dbg"),
    ("dsp:% = p", "dsp"),
    ("dbg2:debug = p", "dbg2"),
    ("dsp2:display = p", "dsp2"),
    ("user_id = n + 1", "user_id"),
    ("größe = n", "größe"),
];
/// (literal text, trailing format argument or "")
const PIECES: &[(&str, &str)] = &[
    ("hello", ""),
    (" ", ""),
    ("world", ""),
    ("{}", "n"),
    ("{}", "s"),
    ("{}", "p.x"),
    ("{}", "s.len()"),
    ("{}", "7"),
    ("{}", "\"lit\""),
    ("{:?}", "p"),
    ("{:?}", "s"),
    ("{n}", ""),
    ("{s}", ""),
    ("{:>5}", "n"),
    ("{{}}", ""),
    ("\\\"quoted\\\"", ""),
    ("naïve 日本", ""),
    ("[ref: 12] ", ""),
    ("a,b;c", ""),
    ("\\n", ""),
    ("{}", "p"),
    ("{x}", "x = n * 2"),
    ("\\\n            continued", ""),
];
const GAPS9: &[&str] = &["", " ", "\n        ", " /* c */ ", " // c\n        ", "  "];

fn pstmt() -> BoxedStrategy<PStmt>
{
    (
        (0u8..5, any::<bool>(), proptest::option::weighted(0.35, prop_oneof![5 => 0u8..4, 1 => 4u8..8]), vec(0u8..KVS.len() as u8, 0..=3)),
        (proptest::option::weighted(0.2, 1u32..5000), vec(0u8..PIECES.len() as u8, 0..6), vec(0u8..GAPS9.len() as u8, 1..6)),
        (prop_oneof![8 => Just(0u8), 1 => Just(1u8), 1 => Just(2u8)], any::<bool>(), prop_oneof![3 => Just(0u8), 2 => 1u8..CONTEXTS9.len() as u8], prop_oneof![9 => Just(false), 1 => Just(true)]),
    )
        .prop_map(|((level, qualified, target, kvs), (existing_ref, pieces, gaps), (directive, trailing_comma, context, unusable_ref))| PStmt {
            level,
            qualified,
            target,
            kvs,
            existing_ref,
            pieces,
            gaps,
            directive,
            trailing_comma,
            context,
            unusable_ref,
        })
        .boxed()
}

pub fn strategy() -> BoxedStrategy<Program>
{
    (any::<bool>(), vec(pstmt(), 12..=30)).prop_map(|(structured, stmts)| Program { structured, stmts }).boxed()
}

struct RenderedProg
{
    body: String,
    /// span of each statement in `body`
    spans: Vec<(usize, usize)>,
}

fn render(p: &Program) -> RenderedProg
{
    let mut body = String::new();
    let mut spans = Vec::new();
    for (idx, s) in p.stmts.iter().enumerate()
    {
        match s.directive
        {
            1 => body.push_str("    // breadlog:ignore\n"),
            2 => body.push_str("    // breadlog:no-kvp\n"),
            _ => (),
        }
        body.push_str("    ");
        let ctx = CONTEXTS9[s.context as usize % CONTEXTS9.len()];
        body.push_str(ctx.0);
        let start = body.len();
        let mut gi = 0usize;
        let mut gap = |body: &mut String| {
            let g = GAPS9[s.gaps[gi % s.gaps.len()] as usize % GAPS9.len()];
            gi += 1;
            body.push_str(g);
        };
        if s.qualified
        {
            body.push_str("log::");
        }
        body.push_str(LEVELS[s.level as usize % LEVELS.len()]);
        body.push_str("!(");
        gap(&mut body);
        if let Some(t) = s.target
        {
            if (t as usize) < TARGETS9.len()
            {
                body.push_str(&format!("target: \"{}\",", TARGETS9[t as usize]));
            }
            else
            {
                body.push_str(&format!("target: {},", TARGET_EXPRS9[(t as usize - TARGETS9.len()) % TARGET_EXPRS9.len()]));
            }
            gap(&mut body);
        }
        // distinct keys
        let mut pairs: Vec<&(&str, &str)> = Vec::new();
        for k in &s.kvs
        {
            let kv = &KVS[*k as usize % KVS.len()];
            if !pairs.iter().any(|x| x.1 == kv.1)
            {
                pairs.push(kv);
            }
        }
        let mut kv_texts: Vec<String> = pairs.iter().map(|x| x.0.to_string()).collect();
        if s.unusable_ref
        {
            // a key named ref whose value is a variable: valid log usage, "unusable" for Breadlog
            let pos = (s.level as usize) % (kv_texts.len() + 1);
            kv_texts.insert(pos, "ref = n".to_string());
        }
        else if let (true, Some(r)) = (p.structured && s.directive != 2, s.existing_ref)
        {
            let pos = (r as usize) % (kv_texts.len() + 1);
            kv_texts.insert(pos, format!("ref = {}", r));
        }
        let n = kv_texts.len();
        for (i, t) in kv_texts.iter().enumerate()
        {
            body.push_str(t);
            body.push_str(if i + 1 == n { ";" } else { "," });
            gap(&mut body);
        }
        body.push('"');
        if let (true, Some(r)) = (!p.structured || s.directive == 2, s.existing_ref)
        {
            body.push_str(&format!("[ref: {}] ", r));
        }
        if s.pieces.first().map(|x| PIECES[*x as usize % PIECES.len()].0.starts_with("\\\n")).unwrap_or(false)
        {
            // the literal OPENS with a line continuation
            body.push_str("\\\n            ");
        }
        body.push_str(&format!("s{} ", idx));
        let mut args: Vec<&str> = Vec::new();
        let mut named_x = false;
        for pi in &s.pieces
        {
            let (lit, arg) = PIECES[*pi as usize % PIECES.len()];
            if lit == "{x}"
            {
                if named_x
                {
                    continue;
                }
                named_x = true;
            }
            body.push_str(lit);
            if !arg.is_empty() && lit != "{x}"
            {
                args.push(arg);
            }
        }
        body.push('"');
        for a in &args
        {
            body.push(',');
            gap(&mut body);
            body.push_str(a);
        }
        if named_x
        {
            body.push_str(", x = n * 2");
        }
        if s.trailing_comma
        {
            body.push(',');
        }
        gap(&mut body);
        body.push(')');
        spans.push((start, body.len()));
        body.push_str(ctx.1);
        body.push('\n');
    }
    RenderedProg { body, spans }
}

const PRELUDE: &str = r#"
#![allow(unused_variables, dead_code, unused_imports, non_snake_case, uncommon_codepoints, mixed_script_confusables)]
use log::{debug, error, info, trace, warn};
use std::fmt;

#[derive(Debug)]
pub struct P { pub x: i32, pub name: String }
impl fmt::Display for P { fn fmt(&self, f: &mut fmt::Formatter) -> fmt::Result { write!(f, "P<{}:{}>", self.x, self.name) } }

pub const TGT: &str = "const-target";
pub fn tf(_n: i32, s: &'static str) -> &'static str { s }

struct Cap;
struct V(String);
impl<'kvs> log::kv::VisitSource<'kvs> for V {
    fn visit_pair(&mut self, key: log::kv::Key<'kvs>, value: log::kv::Value<'kvs>) -> Result<(), log::kv::Error> {
        self.0.push_str(&format!("{}={}\u{1f}", key.as_str(), value));
        Ok(())
    }
}
impl log::Log for Cap {
    fn enabled(&self, _: &log::Metadata) -> bool { true }
    fn log(&self, r: &log::Record) {
        let mut v = V(String::new());
        let _ = r.key_values().visit(&mut v);
        let msg = format!("{}", r.args());
        println!("REC\u{1e}{}\u{1e}{}\u{1e}{}\u{1e}{}", r.level(), r.target(), msg.replace('\n', "\\n"), v.0);
    }
    fn flush(&self) {}
}
static CAP: Cap = Cap;
"#;

fn source(before: &str, after: &str) -> String
{
    format!(
        "{}\nmod before {{\n    use super::*;\n    pub fn run(n: i32, s: &str, p: &P) {{\n{}\n    }}\n}}\nmod after {{\n    use super::*;\n    pub fn run(n: i32, s: &str, p: &P) {{\n{}\n    }}\n}}\nfn main() {{\n    log::set_logger(&CAP).unwrap();\n    log::set_max_level(log::LevelFilter::Trace);\n    let p = P {{ x: 3, name: String::from(\"pn\") }};\n    before::run(5, \"str\", &p);\n    println!(\"=====\");\n    after::run(5, \"str\", &p);\n}}\n",
        PRELUDE, before, after
    )
}

fn log_rlib() -> Option<std::path::PathBuf>
{
    let d = build_dir().join("c09rt/release/deps");
    let rd = std::fs::read_dir(&d).ok()?;
    for e in rd.filter_map(|e| e.ok())
    {
        let n = e.file_name().to_string_lossy().to_string();
        if n.starts_with("liblog-") && n.ends_with(".rlib")
        {
            return Some(e.path());
        }
    }
    None
}

fn compile_and_run(dir: &std::path::Path, src: &str, name: &str) -> Result<String, String>
{
    let rlib = log_rlib().ok_or_else(|| "log rlib not built".to_string())?;
    let sp = dir.join(format!("{}.rs", name));
    std::fs::write(&sp, src).map_err(|e| e.to_string())?;
    let exe = dir.join(name);
    let out = std::process::Command::new("rustc")
        .arg("--edition")
        .arg("2021")
        .arg("-C")
        .arg("opt-level=0")
        .arg("-C")
        .arg("debuginfo=0")
        .arg("--cap-lints")
        .arg("allow")
        .arg("--extern")
        .arg(format!("log={}", rlib.display()))
        .arg("-L")
        .arg(format!("dependency={}", rlib.parent().unwrap().display()))
        .arg("-o")
        .arg(&exe)
        .arg(&sp)
        .current_dir(dir)
        .output()
        .map_err(|e| format!("cannot run rustc: {}", e))?;
    if !out.status.success()
    {
        return Err(format!("rustc failed:\n{}", crate::engine::truncate(&String::from_utf8_lossy(&out.stderr), 1500)));
    }
    let run = std::process::Command::new(&exe).output().map_err(|e| e.to_string())?;
    if !run.status.success()
    {
        return Err(format!("program failed: {}", String::from_utf8_lossy(&run.stderr)));
    }
    Ok(String::from_utf8_lossy(&run.stdout).to_string())
}

#[derive(Debug, Clone, PartialEq)]
struct Rec
{
    level: String,
    target: String,
    msg: String,
    kvs: Vec<(String, String)>,
}

fn parse_recs(out: &str) -> (Vec<Rec>, Vec<Rec>)
{
    let mut a = Vec::new();
    let mut b = Vec::new();
    let mut second = false;
    for line in out.lines()
    {
        if line == "====="
        {
            second = true;
            continue;
        }
        let f: Vec<&str> = line.split('\u{1e}').collect();
        if f.len() == 5 && f[0] == "REC"
        {
            let kvs = f[4]
                .split('\u{1f}')
                .filter(|x| !x.is_empty())
                .map(|kv| {
                    let p = kv.find('=').unwrap_or(0);
                    (kv[..p].to_string(), kv[p + 1..].to_string())
                })
                .collect();
            let r = Rec {
                level: f[1].into(),
                // the default target is the module path, which differs by construction (mod before / mod after)
                target: if f[2] == "both::before" || f[2] == "both::after" { "<module>".to_string() } else { f[2].to_string() },
                msg: f[3].into(),
                kvs,
            };
            if second
            {
                b.push(r)
            }
            else
            {
                a.push(r)
            }
        }
    }
    (a, b)
}

pub fn check(p: &Program) -> CaseOutcome
{
    let mut o = CaseOutcome::default();
    let rp = render(p);
    let cfg = ConfigSpec {
        source_dir: "./src".into(),
        macros: LEVELS
            .iter()
            .map(|l| MacroCfg {
                module: "log".into(),
                name: l.to_string(),
            })
            .collect(),
        structured: Some(p.structured),
        use_cache: Some(false),
        extensions: None,
    };
    let file = format!("pub fn run(n: i32, s: &str, p: &P) {{\n{}}}\n", rp.body);
    let body_off = file.find('\n').unwrap() + 1;
    let sb = Sandbox::new();
    let mut tree = Tree::new();
    tree.insert("Breadlog.yaml".into(), Node::File(cfg.yaml().into_bytes()));
    tree.insert("src/prog.rs".into(), Node::File(file.clone().into_bytes()));
    materialise(&sb.proj(), &tree);
    let run = simple_run(&sb, false);
    o.evals = 1;
    if !run.exit.success()
    {
        o.fail("edit-failed", format!("edit failed ({}):\n{}", run.exit.describe(), run.output_tail()));
        return o;
    }
    let new = std::fs::read(sb.proj().join("src/prog.rs")).unwrap_or_default();
    let ins = match decompose(file.as_bytes(), &new)
    {
        Ok(i) => i,
        Err(m) =>
        {
            o.fail("not-insertion-only", m);
            return o;
        },
    };
    let new_text = String::from_utf8_lossy(&new).to_string();
    // body of the edited fn
    let nb_start = new_text.find('\n').unwrap() + 1;
    let nb_end = new_text.rfind('}').unwrap();
    let after_body = &new_text[nb_start..nb_end];
    let src = source(&rp.body, after_body);
    let out = match compile_and_run(&sb.root, &src, "both")
    {
        Ok(out) => out,
        Err(e) =>
        {
            // attribute: does the ORIGINAL compile on its own?
            let only_before = source(&rp.body, "");
            match compile_and_run(&sb.root, &only_before, "before")
            {
                Err(e0) =>
                {
                    // generator defect, never a violation
                    o.class("generator-defect-original-does-not-compile");
                    o.inconclusive = None;
                    o.sample = Some(json!({"generator_defect": crate::engine::truncate(&e0, 800)}));
                    return o;
                },
                Ok(_) =>
                {
                    o.fail("edited-program-does-not-compile", format!("the original compiles, the edited program does not:\n{}", e));
                    return o;
                },
            }
        },
    };
    o.evals += 1;
    let (a, b) = parse_recs(&out);
    if a.len() != p.stmts.len() || b.len() != a.len()
    {
        o.fail(
            "record-count",
            format!("{} statements, {} records before, {} after", p.stmts.len(), a.len(), b.len()),
        );
        return o;
    }
    let mut nt = false;
    for (i, s) in p.stmts.iter().enumerate()
    {
        let (st, en) = (rp.spans[i].0 + body_off, rp.spans[i].1 + body_off);
        let mine: Vec<_> = ins.iter().filter(|x| x.offset > st && x.offset <= en).collect();
        let stmt_text = &file[st..en];
        if mine.is_empty()
        {
            if a[i] != b[i]
            {
                o.fail("unedited-statement-changed", format!("statement {} was not edited but logs differently: {:?} vs {:?}", stmt_text, a[i], b[i]));
            }
            o.class("stmt-not-edited");
            continue;
        }
        if mine.len() > 1
        {
            o.fail("stmt-edited-twice", format!("{} received {} tokens", stmt_text, mine.len()));
            continue;
        }
        let id = mine[0].digits.clone();
        let mut want = a[i].clone();
        match mine[0].kind
        {
            TokKind::Msg =>
            {
                want.msg = format!("[ref: {}] {}", id, a[i].msg);
                o.class("stmt-edited-msg");
                if doc_regex_extract(&b[i].msg).as_deref() != Some(id.as_str())
                {
                    o.fail("documented-regex-does-not-extract", format!("{}: record message {:?}, documented regex gives {:?}, assigned ID {}", stmt_text, b[i].msg, doc_regex_extract(&b[i].msg), id));
                }
            },
            _ =>
            {
                want.kvs.insert(0, ("ref".to_string(), id.clone()));
                o.class("stmt-edited-kv");
            },
        }
        if b[i] != want
        {
            o.fail(
                "edited-record-differs",
                format!("{} (assigned ID {}):\n  before: {:?}\n  after : {:?}\n  wanted: {:?}", stmt_text, id, a[i], b[i], want),
            );
        }
        if s.target.is_some() || !s.kvs.is_empty() || s.pieces.iter().filter(|x| !PIECES[**x as usize % PIECES.len()].1.is_empty()).count() >= 2
        {
            nt = true;
            o.extra_nontrivial.push(hash_of(&(p.structured, s)));
        }
    }
    o.nontrivial = nt;
    o.class(if p.structured { "structured" } else { "unstructured" });
    o.sample = Some(json!({"structured": p.structured, "statements": p.stmts.len(), "edited": ins.len(), "program_head": crate::engine::truncate(&rp.body, 900)}));
    o
}

pub fn run(env: &Env, rec: &Recorder) -> (String, Vec<&'static str>)
{
    if log_rlib().is_none()
    {
        rec.harness_error("the log rlib (feature kv) has not been built: run ./build.sh".into());
    }
    pbt_opts(env, rec, "programs", env.cases(600, 6000), 120, &strategy, &check);
    rec.extra("programs", json!(rec.cases()));
    rec.extra("disagreements_checked", json!(rec.violation_count()));
    (
        "programs of 12-30 log statements (5 levels, bare or log::-qualified, optional target (string literal, or - 1 in 6 - a constant / function call / module_path!() expression), 0-3 key-values incl. shorthand captures and ?/%/debug/display modifiers, format strings with positional/inline/named/width arguments, escaped quotes and braces, multi-line layouts with comments between arguments, ten syntactic contexts (plain, if/else, match arm, closure, block, let, for, loop, map), breadlog:ignore / no-kvp directives, some statements already referenced), both styles. Breadlog edits the program; ONE crate containing the original and the edited body is compiled with rustc against log 0.4.22 (feature kv) and executed with a capturing logger. Oracle: edited program compiles; same number of records; unedited statements log identically; an edited statement logs the same level/target/key-values and message with exactly `[ref: N] ` prepended (and the documented regex extracts N), or the same message with (ref, N) prepended to the key-values. Non-trivial = distinct edited statement with a target, key-values or >= 2 format arguments".to_string(),
        vec![":err/:sval/:serde capture modifiers are excluded: their crates (value-bag-serde1, sval) are not available offline, so such programs cannot be compiled here", "a generated program whose ORIGINAL does not compile is a generator defect: counted in class_histogram, never reported as a violation"],
    )
}
