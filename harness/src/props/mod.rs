pub mod common;
pub mod model_family;
pub mod c12;
pub mod raw_family;
