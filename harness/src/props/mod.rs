pub mod common;
pub mod model_family;
