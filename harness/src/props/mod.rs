pub mod common;
pub mod model_family;
pub mod c12;
pub mod c07;
pub mod fault_common;
pub mod c01;
pub mod raw_family;
