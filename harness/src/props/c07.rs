//! C07: source files are replaced atomically at every crash and fault point.
//! Per generated tree, EVERY counted filesystem operation of the edit run is
//! (a) preceded by a SIGKILL of the process, (b) failed with every errno
//! applicable to its kind; after each, every source file must be the original
//! or the complete update.

use crate::engine::{dev, hash_of, pbt_opts, CaseOutcome, Env, Recorder};
use crate::props::fault_common::*;
use crate::sandbox::Exit;
use serde::{Deserialize, Serialize};
use serde_json::json;

#[derive(Clone, Debug, PartialEq, Eq, Hash, Serialize, Deserialize)]
pub struct C07Case
{
    pub tree: SizedTree,
    /// restrict the enumeration to this one plan (used by hand-written regression inputs)
    pub only_plan: Option<String>,
}

pub fn check(case: &C07Case) -> CaseOutcome
{
    let mut o = CaseOutcome::default();
    let _cfg_form = crate::sandbox::ConfigFormGuard::new((crate::engine::hash_of(case) % 3) as u8);
    let (tree, files, missing, _) = case.tree.render();
    let names: Vec<String> = files.iter().map(|f| f.0.clone()).collect();
    // reference run
    let r = fault_run(&tree, false, None, None);
    o.evals = 1;
    if !r.run.exit.success()
    {
        o.fail("reference-run-failed", format!("fault-free edit failed ({}):\n{}", r.run.exit.describe(), r.run.output_tail()));
        return o;
    }
    let ref_off = match reference_offsets(&files, &r.after)
    {
        Ok(m) => m,
        Err(e) =>
        {
            o.fail("reference-run-not-insertion-only", e);
            return o;
        },
    };
    let k_total = r.run.counted_ops();
    let ops: Vec<_> = r.run.trace.iter().filter(|t| t.k > 0).cloned().collect();
    let first_scratch = ops.iter().find(|t| t.kind == "open" && t.path.contains("/tmp/breadlog-")).map(|t| t.k).unwrap_or(u64::MAX);
    let mut plans: Vec<(String, u64, &'static str)> = Vec::new();
    match &case.only_plan
    {
        Some(p) => plans.push((p.clone(), 0, "only")),
        None =>
        {
            for t in &ops
            {
                plans.push((format!("kill:{}", t.k), t.k, "kill"));
                for e in applicable_errnos(&t.kind, t.flags)
                {
                    plans.push((format!("fail:{}:{}", t.k, e), t.k, "fail"));
                }
                if t.kind == "write"
                {
                    plans.push((format!("short:{}", t.k), t.k, "short"));
                    // a write that is cut short and whose continuation then fails once (a disk filling up)
                    for e in ["ENOSPC", "EIO"]
                    {
                        plans.push((format!("short:{};fail:{}:{}", t.k, t.k + 1, e), t.k, "short-then-fail"));
                    }
                }
            }
            plans.push((format!("kill:{}", k_total + 1), k_total + 1, "kill"));
            // fault pairs: a failed rename followed by a kill at each of the next operations
            // (catches "fall back to copying in place when the rename fails")
            for t in ops.iter().filter(|t| t.kind == "rename")
            {
                for e in ["EXDEV", "EACCES", "EEXIST"]
                {
                    for j in 1..=14u64
                    {
                        plans.push((format!("fail:{}:{};kill:{}", t.k, e, t.k + j), t.k, "rename-fail-then-kill"));
                    }
                }
                // every rename from this one on fails (a file system that refuses to replace existing files)
                plans.push((format!("rfail:{}:{}", t.k, if t.k % 2 == 0 { "EEXIST" } else { "EBUSY" }), t.k, "persistent-rename-failure"));
            }
            // a scratch-file write that fails (full temporary directory), then a kill at each of the next
            // operations (catches "retry somewhere else when the temporary directory is full"), and a
            // write failure that persists
            let mut by_path: std::collections::BTreeMap<String, Vec<u64>> = std::collections::BTreeMap::new();
            for t in ops.iter().filter(|t| t.kind == "write" && t.path.rsplit('/').next().map(|n| n.starts_with("breadlog-") && n.ends_with(".tmp")).unwrap_or(false))
            {
                by_path.entry(t.path.clone()).or_default().push(t.k);
            }
            for ks in by_path.values()
            {
                let mut picks = vec![ks[0]];
                if ks.len() > 1
                {
                    picks.push(*ks.last().unwrap());
                }
                for (i, k) in picks.iter().enumerate()
                {
                    let e = if i == 0 { "ENOSPC" } else { "EDQUOT" };
                    for j in 1..=14u64
                    {
                        plans.push((format!("fail:{}:{};kill:{}", k, e, k + j), *k, "write-fail-then-kill"));
                    }
                    plans.push((format!("wfail:{}:{}", k, if i == 0 { "ENOSPC" } else { "EINVAL" }), *k, "persistent-write-failure"));
                }
            }
        },
    }
    let big = files.iter().any(|f| f.1.len() > 32 * 1024);
    let small = files.iter().any(|f| f.1.len() <= 8 * 1024);
    o.class(if case.tree.structured { "structured" } else { "unstructured" });
    if big
    {
        o.class("has-file-over-32KiB");
    }
    if small
    {
        o.class("has-file-under-8KiB");
    }
    let mut seen_sigs = std::collections::BTreeSet::new();
    let mut followups = 0usize;
    for (plan, k, what) in &plans
    {
        let fr = fault_run(&tree, false, Some(plan.clone()), None);
        o.evals += 1;
        o.class(&format!("plan-{}", what));
        if fr.run.exit == Exit::Timeout
        {
            o.inconclusive = Some(format!("plan {} ran into the watchdog", plan));
            continue;
        }
        let op_desc = ops.iter().find(|t| t.k == *k).map(|t| format!("{} {}", t.kind, t.path.rsplit('/').next().unwrap_or(""))).unwrap_or_else(|| "after the last operation".into());
        for (rel, orig) in &files
        {
            match file_state(orig, fr.after.get(rel), &ref_off[rel])
            {
                FileState::Untouched | FileState::Updated(_) => (),
                FileState::Missing =>
                {
                    let sig = format!("source-file-missing-after-{}", what);
                    if seen_sigs.insert(sig.clone())
                    {
                        o.fail(&sig, format!("plan {} (op {}: {}): {} no longer exists", plan, k, op_desc, rel));
                    }
                },
                FileState::Corrupt(m) =>
                {
                    let sig = format!("source-file-corrupt-after-{}", what);
                    if seen_sigs.insert(sig.clone())
                    {
                        o.fail(&sig, format!("plan {} (op {}: {}; process: {}): {}: {}", plan, k, op_desc, fr.run.exit.describe(), rel, m));
                    }
                },
            }
        }
        let others = other_entries_changed(&fr, &names);
        if !others.is_empty()
        {
            let sig = format!("other-entry-changed-after-{}", what);
            if seen_sigs.insert(sig.clone())
            {
                o.fail(&sig, format!("plan {} (op {}: {}): {:?}", plan, k, op_desc, others));
            }
        }
        // Nothing a killed run leaves behind may harm a later run: the developer shortens every
        // source file, then an ordinary run in the SAME sandbox (same TMPDIR) must produce exactly
        // the shortened files plus reference tokens.
        if matches!(fr.run.exit, Exit::Signal(_)) && *k > first_scratch && (followups < 10 || *k % 5 == 0) && o.deviations.is_empty()
        {
            followups += 1;
            let proj = fr.sandbox.proj();
            let mut shortened: Vec<(String, Vec<u8>)> = Vec::new();
            for (rel, orig) in &files
            {
                let text = String::from_utf8_lossy(orig).to_string();
                let lines: Vec<&str> = text.lines().collect();
                let keep = (lines.len() / 3).max(2).min(lines.len());
                let mut t = lines[..keep].join("\n");
                t.push_str("\n    warn!(\"added after the crash\");\n}\n");
                let _ = std::fs::write(proj.join(rel), &t);
                shortened.push((rel.clone(), t.into_bytes()));
            }
            let r2 = crate::sandbox::simple_run(&fr.sandbox, false);
            o.evals += 1;
            o.class("follow-up-run-after-kill");
            let after2 = crate::sandbox::read_files(&proj);
            for (rel, so) in &shortened
            {
                let bad = match after2.get(rel)
                {
                    None => Some("the file no longer exists".to_string()),
                    Some(n) => match crate::oracle::decompose(so, n)
                    {
                        Ok(ins) if !ins.is_empty() => None,
                        Ok(_) => Some("no reference was inserted".to_string()),
                        Err(m) => Some(m),
                    },
                };
                if let Some(m) = bad
                {
                    if seen_sigs.insert("later-run-after-kill-corrupts-file".to_string())
                    {
                        o.fail(
                            "later-run-after-kill-corrupts-file",
                            format!(
                                "after plan {} (op {}: {}) the developer shortened {} and ran breadlog again ({}): {}",
                                plan, k, op_desc, rel, r2.exit.describe(), m
                            ),
                        );
                    }
                }
            }
        }
        if !o.deviations.is_empty() && plans.len() > 1
        {
            // one counter-example is enough; the rest of the enumeration would only slow shrinking down
            break;
        }
        if *k > first_scratch && *k <= k_total
        {
            o.extra_nontrivial.push(hash_of(&(&case.tree, plan)));
        }
    }
    // the same kill enumeration with TMPDIR on another filesystem (every rename really fails with EXDEV)
    if case.only_plan.is_none() && o.deviations.is_empty() && files.iter().map(|f| f.1.len()).sum::<usize>() < 64 * 1024
    {
        let base = crate::sandbox::build_dir().join("work");
        let _ = std::fs::create_dir_all(&base);
        let work0 = crate::sandbox::Sandbox::new_in(&base);
        let r0 = fault_run(&tree, false, None, Some(work0.root.clone()));
        o.evals += 1;
        let k0 = r0.run.counted_ops();
        for k in 1..=k0 + 1
        {
            let work = crate::sandbox::Sandbox::new_in(&base);
            let fr = fault_run(&tree, false, Some(format!("kill:{}", k)), Some(work.root.clone()));
            o.evals += 1;
            o.class("plan-kill-with-cross-filesystem-tmpdir");
            for (rel, orig) in &files
            {
                let st = file_state(orig, fr.after.get(rel), &ref_off[rel]);
                let bad = match &st
                {
                    FileState::Corrupt(m) => Some(m.clone()),
                    FileState::Missing => Some("the file no longer exists".to_string()),
                    _ => None,
                };
                if let Some(m) = bad
                {
                    if seen_sigs.insert("source-file-corrupt-after-kill-cross-fs".to_string())
                    {
                        o.fail(
                            "source-file-corrupt-after-kill-cross-fs",
                            format!("TMPDIR on another filesystem, kill before op {}: {}: {}", k, rel, m),
                        );
                    }
                }
            }
            if !o.deviations.is_empty()
            {
                break;
            }
        }
    }
    o.nontrivial = missing > 0;
    let _ = dev;
    o.sample = Some(json!({
        "files": files.iter().map(|f| json!({"path": f.0, "bytes": f.1.len()})).collect::<Vec<_>>(),
        "counted_ops_K": k_total,
        "plans_run": plans.len(),
        "op_sequence": ops.iter().map(|t| format!("{}:{}", t.k, t.kind)).collect::<Vec<_>>().join(" "),
    }));
    o
}

pub fn run(env: &Env, rec: &Recorder) -> (String, Vec<&'static str>)
{
    pbt_opts(
        env,
        rec,
        "enumerate",
        env.cases(24, 600),
        40,
        &|| {
            use proptest::prelude::*;
            sized_tree(1, 4, 4, true, Some(true)).prop_map(|tree| C07Case { tree, only_plan: None }).boxed()
        },
        &check,
    );
    rec.set_exhaustive(true);
    (
        "trees of 1-4 source files (tens of bytes to ~1 MiB, insertions near start / middle / end, with and without final newline, both styles, lock on); inside each case a recording run gives the K counted operations (open/read/write/close/rename/unlink/stat/opendir on project and TMPDIR paths) and the complete update; then for EVERY k: SIGKILL before op k (and after the last op), op k failed with every errno applicable to its kind (EIO/ENOSPC/EXDEV/EACCES/EMFILE, short write, short write followed by a failing write), every rename failed (EXDEV/EACCES/EEXIST) followed by a SIGKILL before each of the next 14 operations, every rename from a given one on failing (EEXIST/EBUSY), the first and the last write of every scratch file failed (ENOSPC/EDQUOT) followed by a SIGKILL before each of the next 14 operations, a write failure that persists from those writes on, and (trees < 64 KiB) SIGKILL before every operation with TMPDIR really on another filesystem - each on a fresh copy. Oracle: every source file is byte-identical to the original or a complete update (insertion-only with exactly the reference run's offsets); every other project entry unchanged (lock exempt); and for a sample of kill points a FOLLOW-UP: the developer shortens every source file and runs breadlog again in the same sandbox (same TMPDIR) - the result must be exactly the shortened files plus reference tokens (nothing left behind by the killed run may leak into a later run). exhaustive=true means: all operation boundaries of each generated tree. Non-trivial = distinct (tree, plan) whose fault hits after the first scratch-file open and not after the last op".to_string(),
        vec![
            "faults are injected at libc call boundaries of the dynamically linked executable (LD_PRELOAD); a kill or failure inside a system call is not enumerated",
            "power-loss semantics (unsynced data) are not part of the statement: no fsync is demanded",
            "the run's operation sequence is identical on identical copies (checked: causally sequential file processing)",
        ],
    )
}
