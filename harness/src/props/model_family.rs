//! C10, C11, C13, C14: reference-model properties over rendered statements,
//! decided in-process through the parser hook (volume) and through the
//! executable (wiring).

use crate::engine::{hash_of, pbt, CaseOutcome, Env, Recorder};
use crate::gen::*;
use crate::model_check;
use crate::props::common::{cfg_label, model_cli, sample_of_file};
use proptest::prelude::*;
use serde_json::json;

#[derive(Clone, Copy, PartialEq, Eq)]
pub enum Which
{
    C10,
    C11,
    C13,
    C14,
}

fn params(w: Which) -> (StmtParams, bool, usize, StructSel)
{
    match w
    {
        Which::C10 => (StmtParams::default(), false, 15, StructSel::Any),
        Which::C11 => (
            StmtParams {
                p_target: 15,
                p_kvs: 20,
                p_ref_kv: 10,
                p_prefix: 20,
                p_layout: 25,
                p_context: 30,
                p_preamble: 0,
                n_macros: 4,
            },
            true,
            12,
            StructSel::Any,
        ),
        Which::C13 => (
            StmtParams {
                p_target: 50,
                p_kvs: 70,
                p_ref_kv: 50,
                p_prefix: 20,
                p_layout: 60,
                p_context: 30,
                p_preamble: 6,
                n_macros: 4,
            },
            false,
            12,
            StructSel::Always(true),
        ),
        Which::C14 => (
            StmtParams {
                p_target: 20,
                p_kvs: 30,
                p_ref_kv: 20,
                p_prefix: 25,
                p_layout: 30,
                p_context: 25,
                p_preamble: 70,
                n_macros: 4,
            },
            false,
            10,
            StructSel::Any,
        ),
    }
}

/// Non-triviality of a statement / file per property, plus class labels.
fn classify(w: Which, cfg: &ConfigSpec, r: &Rendered, f: &FileSpec, o: &mut CaseOutcome)
{
    o.class(cfg_label(cfg));
    match f.eol
    {
        Eol::Lf => (),
        Eol::Crlf => o.class("crlf"),
        Eol::Mixed => o.class("mixed-eol"),
    }
    if !f.final_newline
    {
        o.class("no-final-newline");
    }
    let mut effective = 0;
    let mut lookalike = 0;
    for s in &r.stmts
    {
        let sp = &s.spec;
        let text = &r.text[s.start..s.end];
        let multiline = text.contains('\n');
        let comment_gap = text.contains("/*") || text.contains("//");
        let feats = [
            sp.qualified,
            sp.target.is_some(),
            !sp.kvs.is_empty(),
            sp.kvs.iter().any(|k| k.modifier.is_some()),
            multiline,
            comment_gap,
            sp.msg_body.contains("\\\""),
            text.contains('\r'),
            sp.before != 0,
        ];
        let n = feats.iter().filter(|b| **b).count();
        match &s.expect
        {
            Expect::Ignored => o.class("expect-ignored"),
            Expect::HasRef(_) => o.class("expect-hasref"),
            Expect::Unusable => o.class("expect-unusable"),
            Expect::Missing { kind, .. } => o.class(&format!("expect-missing-{:?}", kind)),
        }
        if sp.target.is_some()
        {
            o.class("stmt-with-target");
        }
        if multiline
        {
            o.class("stmt-multiline");
        }
        if comment_gap
        {
            o.class("stmt-comment-in-gap");
        }
        if s.directive_ignore || (s.directive_no_kvp && cfg.is_structured())
        {
            effective += 1;
        }
        else if !matches!(sp.preamble, Preamble::None) || sp.trailing_directive.is_some()
        {
            lookalike += 1;
        }
        let nontrivial = match w
        {
            Which::C10 => n >= 2,
            Which::C11 => false,
            Which::C13 =>
            {
                sp.target.is_some() || !sp.kvs.is_empty() || sp.ref_kv.as_ref().map(|(p, _)| *p > 0 && !sp.kvs.is_empty()).unwrap_or(false)
            },
            Which::C14 => false,
        };
        if nontrivial
        {
            o.extra_nontrivial.push(hash_of(&(cfg.is_structured(), sp, f.eol)));
        }
    }
    match w
    {
        Which::C11 =>
        {
            // decoy on the same or an adjacent line as a real statement, or on the last line without newline
            let line_of = |off: usize| r.text[..off].matches('\n').count();
            let mut nt = false;
            for (a, b, k) in &r.decoys
            {
                o.class(&format!("decoy-{}", k));
                let (la, lb) = (line_of(*a), line_of(*b));
                for s in &r.stmts
                {
                    let (sa, sb) = (line_of(s.start), line_of(s.end));
                    if la <= sb + 1 && sa <= lb + 1
                    {
                        nt = true;
                    }
                }
                if !f.final_newline && *b == r.text.len()
                {
                    nt = true;
                    o.class("decoy-last-line-no-newline");
                }
            }
            o.nontrivial = nt && !r.stmts.is_empty();
        },
        Which::C14 =>
        {
            o.nontrivial = effective >= 1 && lookalike >= 1;
            if effective > 0
            {
                o.class("has-effective-directive");
            }
            if lookalike > 0
            {
                o.class("has-ineffective-directive-lookalike");
            }
        },
        _ => (),
    }
}

pub fn run(env: &Env, rec: &Recorder, w: Which) -> (String, Vec<&'static str>)
{
    let (p, decoys, max_items, structured) = params(w);
    // ---- in-process part
    let (q, t) = match w
    {
        Which::C10 => (32_000, 1_500_000),
        Which::C11 => (24_000, 1_200_000),
        Which::C13 => (28_000, 1_200_000),
        Which::C14 => (28_000, 1_200_000),
    };
    let p2 = p.clone();
    let st2 = structured;
    let strat_inproc = move || {
        let p3 = p2.clone();
        config_spec(st2.strategy())
            .prop_flat_map(move |cfg| {
                let fs = file_spec(&cfg, &p3, max_items, decoys);
                (Just(cfg), fs)
            })
            .boxed()
    };
    pbt(env, rec, "inproc", env.cases(q, t), &strat_inproc, &|case: &(ConfigSpec, FileSpec)| {
        let (cfg, f) = case;
        let mut o = CaseOutcome::default();
        let r = render_file(f, cfg);
        o.evals = r.stmts.len() as u64 + r.decoys.len() as u64;
        match crate::hook::find(&r.text, cfg.is_structured(), &cfg.macro_pairs())
        {
            Ok(entries) => o.deviations = model_check::check_entries(&r, cfg, &entries),
            Err(m) if crate::hook::is_timeout(&m) => o.inconclusive = Some(m),
            Err(m) => o.fail("panic", format!("the parser panicked: {}", m)),
        }
        classify(w, cfg, &r, f, &mut o);
        o.sample = Some(json!({"config_macros": cfg.macro_pairs(), "structured": cfg.is_structured(), "file": crate::engine::truncate(&r.text, 1200)}));
        o
    });
    // ---- CLI part
    let (q, t) = (1_000, 30_000);
    let p4 = p.clone();
    let st4 = structured;
    let strat_cli = move || model_tree(st4, p4.clone(), 3, max_items.min(8), decoys);
    pbt(env, rec, "cli", env.cases(q, t), &strat_cli, &|mt: &ModelTree| {
        let (mut o, rendered, _pair) = model_cli(mt);
        for ((_, f), (rel, r)) in mt.files.iter().zip(rendered.iter())
        {
            classify(w, &mt.cfg, r, f, &mut o);
            if o.sample.is_none()
            {
                o.sample = Some(sample_of_file(rel, &r.text));
            }
        }
        o.class("via-cli");
        o
    });
    let rule = match w
    {
        Which::C10 => "files of 1-15 canonical statements rendered from a structural model (path form x macro set x target x key-values/modifiers x message x args x layout x EOL x context), compared with the reference model in-process (parser hook) and through the executable (check report + edit result); non-trivial = a distinct statement combining >= 2 of {qualified path, target, key-values, modifier, multi-line, comment between arguments, escaped quote, CRLF, non-empty preceding context}",
        Which::C11 => "files mixing real statements with decoys (line/doc/block comments, unconfigured names incl. prefix/suffix/other module, configured names without literal, macro-like text in strings with escaped quotes); non-trivial = a distinct file with a decoy on the same or an adjacent line as a real statement, or a decoy on the last line without final newline",
        Which::C13 => "structured-mode statements over the key-value grammar (0-3 pairs, all modifiers, shorthand keys, string values with ; and , / target / layouts / ref entry absent, valid at any position, or unusable - identifiers, strings, floats, calls, out-of-range numbers, digits followed by a type suffix inside an expression such as `2u8 * shard`); non-trivial = a distinct statement with a target, or other pairs, or a ref entry not in first position",
        Which::C14 => "files of statements each preceded by a generated preamble (directive comment in // or /* */ form with random case and whitespace, look-alike text, directive separated by code/comment/blank lines - one blank line in 25 a whitespace-only line of 4090 ... 16500 characters -, trailing directive comments); non-trivial = a distinct file with >= 1 effective directive and >= 1 directive look-alike that must have no effect",
    };
    (
        rule.to_string(),
        vec![
            "statement domain restricted to the canonical forms listed in DESIGN.md 2.2 (wider Rust expressions are documented limitations)",
            "in-process part links Breadlog's library built with the verif-hooks feature from the same sources as the executable",
        ],
    )
}
