//! Building blocks shared by the CLI-level properties.

use crate::engine::{dev, CaseOutcome, Deviation};
use crate::gen::{ConfigSpec, ModelTree, Rendered};
use crate::model_check;
use crate::oracle::{decompose, line_col, Insertion};
use crate::sandbox::{materialise, read_files, simple_run, Exit, Node, RunResult, Sandbox, Tree};
use std::collections::BTreeMap;

/// Map a path printed by Breadlog to a path relative to the project dir.
pub fn rel_path(printed: &str, proj: &std::path::Path) -> String
{
    let p = printed.trim();
    let projs = proj.to_string_lossy().to_string();
    let stripped = if let Some(rest) = p.strip_prefix(&projs) { rest.to_string() } else { p.to_string() };
    let mut parts: Vec<&str> = Vec::new();
    for c in stripped.split('/')
    {
        match c
        {
            "" | "." => (),
            ".." =>
            {
                parts.pop();
            },
            x => parts.push(x),
        }
    }
    parts.join("/")
}

pub fn no_crash(run: &RunResult, what: &str, out: &mut Vec<Deviation>)
{
    match run.exit
    {
        Exit::Code(c) if c == 101 || c == 134 =>
        {
            out.push(dev("panic", format!("{} run panicked / aborted ({}):\n{}", what, run.exit.describe(), run.output_tail())))
        },
        Exit::Signal(s) => out.push(dev("crash-signal", format!("{} run died by signal {}:\n{}", what, s, run.output_tail()))),
        _ =>
        {
            if run.report.panicked
            {
                out.push(dev("panic", format!("{} run printed a panic message:\n{}", what, run.output_tail())));
            }
        },
    }
}

pub struct Pair
{
    pub check: RunResult,
    pub edit: RunResult,
    pub after_check: BTreeMap<String, Vec<u8>>,
    pub after_edit: BTreeMap<String, Vec<u8>>,
    pub sandbox: Sandbox,
}

/// Materialise `tree` in a fresh sandbox, run `--check`, then an edit run.
/// File permission bits are part of a tree too: about one source file in four gets a non-default
/// mode (read-only 0444 / 0400, executable 0755, group-writable 0664), chosen as a pure function of
/// its path and content. The harness runs as root, so none of them keeps Breadlog from reading or
/// replacing the file; what a tool does with such a file must not differ between the two modes.
pub fn vary_modes(proj: &std::path::Path, tree: &Tree) -> usize
{
    use std::os::unix::fs::PermissionsExt;
    let mut n = 0;
    for (rel, node) in tree
    {
        if let Node::File(b) = node
        {
            if rel == "Breadlog.yaml" || rel == "Breadlog.lock"
            {
                continue;
            }
            let h = crate::engine::hash_of(&(rel, b));
            let mode = match h % 16
            {
                0 | 1 => Some(0o444),
                2 => Some(0o400),
                3 => Some(0o755),
                4 => Some(0o664),
                _ => None,
            };
            if let Some(mode) = mode
            {
                if std::fs::set_permissions(proj.join(rel), std::fs::Permissions::from_mode(mode)).is_ok()
                {
                    n += 1;
                }
            }
            // ... and about one in six an unusual modification time (2001 or 2040), as files restored from
            // an archive or checked out by a tool that keeps time stamps have
            let when: Option<i64> = match (h >> 8) % 12
            {
                0 => Some(978_307_200),
                1 => Some(2_208_988_800),
                _ => None,
            };
            if let Some(t) = when
            {
                let ts = libc::timespec { tv_sec: t, tv_nsec: 0 };
                let times = [ts, ts];
                if let Ok(c) = std::ffi::CString::new(proj.join(rel).to_string_lossy().as_bytes())
                {
                    unsafe {
                        libc::utimensat(libc::AT_FDCWD, c.as_ptr(), times.as_ptr(), 0);
                    }
                }
            }
        }
    }
    n
}

pub fn run_pair(tree: &Tree) -> Pair
{
    let _cfg_form = crate::sandbox::ConfigFormGuard::new((crate::engine::hash_of(tree) % 3) as u8);
    let sb = Sandbox::new();
    materialise(&sb.proj(), tree);
    vary_modes(&sb.proj(), tree);
    let check = simple_run(&sb, true);
    let after_check = read_files(&sb.proj());
    // restore anything a (faulty) check run may have changed, so that the edit run starts from the original
    let mut dirty = false;
    for (rel, node) in tree
    {
        if let Node::File(b) = node
        {
            if after_check.get(rel) != Some(b)
            {
                dirty = true;
            }
        }
    }
    if dirty || after_check.len() != tree.values().filter(|n| matches!(n, Node::File(_))).count()
    {
        let _ = std::fs::remove_dir_all(sb.proj());
        std::fs::create_dir_all(sb.proj()).unwrap();
        materialise(&sb.proj(), tree);
        vary_modes(&sb.proj(), tree);
    }
    let edit = simple_run(&sb, false);
    let after_edit = read_files(&sb.proj());
    Pair {
        check,
        edit,
        after_check,
        after_edit,
        sandbox: sb,
    }
}

/// Per-file (line, col) lists out of a report.
pub fn by_file(list: &[(String, usize, usize)], proj: &std::path::Path) -> BTreeMap<String, Vec<(usize, usize)>>
{
    let mut m: BTreeMap<String, Vec<(usize, usize)>> = BTreeMap::new();
    for (p, l, c) in list
    {
        m.entry(rel_path(p, proj)).or_default().push((*l, *c));
    }
    m
}

/// The differential oracle of C03/C05 on arbitrary contents:
///  - check did not change any file,
///  - every in-scope file after the edit is the original plus reference tokens,
///  - reported locations == insertion locations (per file, as multisets),
///  - totals agree, exit statuses agree.
/// `in_scope` lists the relative paths of files Breadlog should have scanned and could read as text.
pub fn differential(tree: &Tree, in_scope: &[String], pair: &Pair, out: &mut Vec<Deviation>) -> BTreeMap<String, Vec<Insertion>>
{
    let proj = pair.sandbox.proj();
    let mut all_ins: BTreeMap<String, Vec<Insertion>> = BTreeMap::new();
    no_crash(&pair.check, "--check", out);
    no_crash(&pair.edit, "edit", out);
    for (rel, node) in tree
    {
        if let Node::File(b) = node
        {
            if pair.after_check.get(rel) != Some(b)
            {
                out.push(dev("check-modified-file", format!("--check changed or removed {}", rel)));
            }
        }
    }
    let rep_missing = by_file(&pair.check.report.missing, &proj);
    let mut total_ins = 0usize;
    for (rel, node) in tree
    {
        let orig = match node
        {
            Node::File(b) => b,
            _ => continue,
        };
        if rel == "Breadlog.lock"
        {
            continue;
        }
        let new = match pair.after_edit.get(rel)
        {
            Some(n) => n,
            None =>
            {
                out.push(dev("file-removed", format!("{} no longer exists after the edit run", rel)));
                continue;
            },
        };
        if !in_scope.contains(rel)
        {
            if new != orig
            {
                out.push(dev("out-of-scope-file-changed", format!("{} is not in scope but was changed", rel)));
            }
            continue;
        }
        match decompose(orig, new)
        {
            Err(m) => out.push(dev("not-insertion-only", format!("{}: {}", rel, m))),
            Ok(ins) =>
            {
                total_ins += ins.len();
                let mut want: Vec<(usize, usize)> = ins.iter().map(|i| line_col(orig, i.offset)).collect();
                let mut got = rep_missing.get(rel).cloned().unwrap_or_default();
                want.sort();
                got.sort();
                if want != got
                {
                    out.push(dev(
                        "check-edit-location-mismatch",
                        format!(
                            "{}: --check reported missing references at {:?} but the edit run inserted at {:?}",
                            rel, got, want
                        ),
                    ));
                }
                all_ins.insert(rel.clone(), ins);
            },
        }
    }
    // nothing but the lock file may appear, and symlinks stay symlinks
    for rel in pair.after_edit.keys()
    {
        if rel != "Breadlog.lock" && !matches!(tree.get(rel), Some(Node::File(_)))
        {
            out.push(dev(
                "unexpected-file-after-edit",
                format!("{} is a regular file after the edit run but was {} before", rel, if tree.contains_key(rel) { "a symlink / directory" } else { "absent" }),
            ));
        }
    }
    for f in rep_missing.keys()
    {
        if !in_scope.contains(f)
        {
            out.push(dev("report-for-unknown-file", format!("--check reported a location in {:?}, which is not an in-scope file", f)));
        }
    }
    // totals and exit status
    let check_ran = pair.check.report.grand_total.is_some();
    if check_ran
    {
        let gt = pair.check.report.grand_total.unwrap();
        if gt as usize != pair.check.report.missing.len()
        {
            out.push(dev("check-total", format!("--check total {} but {} locations listed", gt, pair.check.report.missing.len())));
        }
        let per_file: u64 = pair.check.report.file_totals.iter().map(|x| x.1).sum();
        if per_file != gt
        {
            out.push(dev("check-total", format!("--check per-file totals sum to {} but grand total is {}", per_file, gt)));
        }
        let failed = !pair.check.exit.success();
        if failed != (pair.check.report.missing.len() > 0)
        {
            out.push(dev(
                "check-exit-status",
                format!("--check {} with {} missing reference(s) reported", pair.check.exit.describe(), pair.check.report.missing.len()),
            ));
        }
        if failed != (total_ins > 0)
        {
            out.push(dev(
                "check-exit-vs-edit",
                format!("--check {} but the edit run inserted {} reference(s)", pair.check.exit.describe(), total_ins),
            ));
        }
    }
    else if !in_scope.is_empty()
    {
        out.push(dev("check-no-total", format!("--check printed no grand total ({}):\n{}", pair.check.exit.describe(), pair.check.output_tail())));
    }
    match pair.edit.report.inserted
    {
        Some(n) =>
        {
            if n as usize != total_ins
            {
                out.push(dev("edit-count", format!("edit run printed 'Num. inserted: {}' but {} token(s) were inserted", n, total_ins)));
            }
        },
        None =>
        {
            if total_ins > 0
            {
                out.push(dev("edit-count", format!("edit run inserted {} token(s) but printed no count", total_ins)));
            }
        },
    }
    // with an unreadable source file in the tree the edit run's exit status is not specified
    let some_unreadable = tree
        .iter()
        .any(|(rel, n)| matches!(n, Node::File(_)) && rel.starts_with("src/") && rel.ends_with(".rs") && !in_scope.contains(rel));
    if !pair.edit.exit.success() && !in_scope.is_empty() && !some_unreadable
    {
        out.push(dev("edit-failed", format!("fault-free edit run failed ({}):\n{}", pair.edit.exit.describe(), pair.edit.output_tail())));
    }
    all_ins
}

/// The ID-range-exhaustion regime (behaviour owned by C01): the highest existing
/// reference plus the number of missing ones reaches u32::MAX, so a correct
/// edit run fails instead of inserting. Other properties exclude such trees
/// by construction and count them.
pub fn exhaustion_regime(max_existing: Option<u32>, missing: usize) -> bool
{
    match max_existing
    {
        Some(m) => missing > 0 && (m as u64 + missing as u64) >= u32::MAX as u64,
        None => false,
    }
}

pub fn exhaustion_regime_model(rendered: &[(String, Rendered)]) -> bool
{
    let mut max_e: Option<u32> = None;
    let mut missing = 0;
    for (_, r) in rendered
    {
        for s in &r.stmts
        {
            match &s.expect
            {
                crate::gen::Expect::HasRef(n) => max_e = Some(max_e.map(|m| m.max(*n)).unwrap_or(*n)),
                crate::gen::Expect::Missing { .. } => missing += 1,
                _ => (),
            }
        }
    }
    exhaustion_regime(max_e, missing)
}

/// Same, for arbitrary contents, using what the parser recognises.
pub fn exhaustion_regime_raw(files: &[(String, Vec<u8>)], cfg: &ConfigSpec) -> bool
{
    let mut max_e: Option<u32> = None;
    let mut missing = 0;
    for (_, b) in files
    {
        if let Ok(t) = std::str::from_utf8(b)
        {
            if let Ok(entries) = crate::hook::find(t, cfg.is_structured(), &cfg.macro_pairs())
            {
                for e in entries
                {
                    match e.reference
                    {
                        Some(n) => max_e = Some(max_e.map(|m| m.max(n)).unwrap_or(n)),
                        None if e.usable => missing += 1,
                        None => (),
                    }
                }
            }
        }
    }
    exhaustion_regime(max_e, missing)
}

/// Model-based CLI check of a modelled tree (C10/C11/C13/C14 at CLI level):
/// check report and edit result are both compared with the model.
pub fn model_cli(mt: &ModelTree) -> (CaseOutcome, Vec<(String, Rendered)>, Option<Pair>)
{
    let mut o = CaseOutcome::default();
    let (tree, rendered) = mt.render();
    if exhaustion_regime_model(&rendered)
    {
        o.class("excluded-id-range-exhaustion-regime");
        return (o, rendered, None);
    }
    let pair = run_pair(&tree);
    o.evals = 2;
    let in_scope: Vec<String> = rendered.iter().map(|(r, _)| r.clone()).collect();
    let mut devs = Vec::new();
    differential(&tree, &in_scope, &pair, &mut devs);
    let proj = pair.sandbox.proj();
    let rep_m = by_file(&pair.check.report.missing, &proj);
    let rep_u = by_file(&pair.check.report.unusable, &proj);
    for (rel, r) in &rendered
    {
        let m = rep_m.get(rel).cloned().unwrap_or_default();
        let u = rep_u.get(rel).cloned().unwrap_or_default();
        for d in model_check::check_report(r, &m, &u)
        {
            devs.push(dev(&d.signature, format!("{}: {}", rel, d.message)));
        }
        if let Some(new) = pair.after_edit.get(rel)
        {
            let (ds, _) = model_check::check_edit(r, new);
            for d in ds
            {
                devs.push(dev(&d.signature, format!("{}: {}", rel, d.message)));
            }
        }
    }
    o.deviations = devs;
    (o, rendered, Some(pair))
}

pub fn cfg_label(cfg: &ConfigSpec) -> &'static str
{
    if cfg.is_structured()
    {
        "structured"
    }
    else
    {
        "unstructured"
    }
}

pub fn sample_of_file(rel: &str, text: &str) -> serde_json::Value
{
    serde_json::json!({"file": rel, "content": crate::engine::truncate(text, 1500)})
}
