//! C01: newly assigned IDs are unique, within 1..=u32::MAX, above every
//! existing ID (no lock) or at/above the lock value (consistent lock).

use crate::engine::{dev, hash_of, pbt, CaseOutcome, Env, Recorder};
use crate::gen::*;
use crate::oracle::decompose;
use crate::props::common::*;
use crate::sandbox::{materialise, read_files, simple_run, Sandbox};
use proptest::collection::vec;
use proptest::prelude::*;
use serde::{Deserialize, Serialize};
use serde_json::json;
use std::collections::BTreeSet;

#[derive(Clone, Debug, PartialEq, Eq, Hash, Serialize, Deserialize)]
pub enum SKind
{
    Missing,
    Has(u32),
    IgnoredMissing,
    IgnoredHas(u32),
    /// structured only: `ref = x`
    Unusable,
    /// a reference in a comment / unconfigured macro: outside the scanned set
    OutsideHas(u32),
}

#[derive(Clone, Debug, PartialEq, Eq, Hash, Serialize, Deserialize)]
pub enum LockMode
{
    Absent,
    /// use_cache: false, with this lock content lying around
    Disabled(Option<u32>),
    /// use_cache on, lock = max(existing)+1+delta (consistent)
    Ahead(u32),
}

#[derive(Clone, Debug, PartialEq, Eq, Hash, Serialize, Deserialize)]
pub struct C01Case
{
    pub structured: bool,
    pub files: Vec<Vec<(SKind, u8)>>,
    pub lock: LockMode,
}

fn id_class() -> BoxedStrategy<u32>
{
    prop_oneof![
        5 => 1u32..40,
        2 => 1u32..100_000,
        1 => Just(0u32),
        2 => (0u32..6).prop_map(|j| u32::MAX - j),
        1 => any::<u32>(),
        // values where the number of digits or of significant bits changes
        1 => (proptest::sample::select(&[9u32, 10, 99, 100, 255, 256, 999, 1000, 32767, 32768, 65535, 65536, 999_999_999, 1_000_000_000, 2_147_483_647, 2_147_483_648][..]), 0u32..3).prop_map(|(b, d)| b.saturating_add(d).saturating_sub(1)),
    ]
    .boxed()
}

fn skind() -> BoxedStrategy<SKind>
{
    prop_oneof![
        8 => Just(SKind::Missing),
        6 => id_class().prop_map(SKind::Has),
        1 => Just(SKind::IgnoredMissing),
        1 => id_class().prop_map(SKind::IgnoredHas),
        1 => Just(SKind::Unusable),
        1 => id_class().prop_map(SKind::OutsideHas),
    ]
    .boxed()
}

fn strategy() -> BoxedStrategy<C01Case>
{
    (
        any::<bool>(),
        prop_oneof![
            36 => vec(vec((skind(), any::<u8>()), 0..=12), 1..=8),
            4 => vec(vec((skind(), any::<u8>()), 0..=3), 20..=60),
            // more files than any plausible batch / buffer size of the scanner (rare: these trees are big)
            1 => vec(vec((skind(), any::<u8>()), 0..=1), 513..=700).prop_filter("rare", |_| true),
        ],
        prop_oneof![
            3 => Just(LockMode::Absent),
            2 => proptest::option::of(id_class()).prop_map(LockMode::Disabled),
            3 => prop_oneof![3 => 0u32..5, 1 => 0u32..1000, 1 => (0u32..8).prop_map(|j| u32::MAX - j)].prop_map(LockMode::Ahead),
        ],
    )
        .prop_map(|(structured, files, lock)| C01Case { structured, files, lock })
        .boxed()
}

fn build(case: &C01Case) -> (ModelTree, Vec<u32>, Option<u32>)
{
    let mut cfg = ConfigSpec::simple(case.structured, None);
    // a fourth macro that shares its NAME with the first one but lives in another module
    cfg.macros.push(crate::gen::MacroCfg {
        module: "tracing".into(),
        name: "info".into(),
    });
    let mut existing: Vec<u32> = Vec::new();
    let mut files = Vec::new();
    for (fi, f) in case.files.iter().enumerate()
    {
        let mut items = Vec::new();
        // one file in eight writes EVERY statement with something between the macro name and `!`
        // (comment, left-to-right mark, line break): the text `name!` then occurs nowhere in the file
        let file_gap: u8 = match f.first()
        {
            Some((_, l0)) if l0 % 8 == 7 => 3 + (l0 / 8) % 7,
            _ => 0,
        };
        for (k, lay) in f
        {
            let mut s = StmtSpec {
                macro_idx: (*lay as usize) % 4,
                qualified: lay & 8 != 0,
                target: if lay & 16 != 0 { Some("t".into()) } else { None },
                kvs: if lay & 32 != 0
                {
                    vec![Kv {
                        key: "a".into(),
                        modifier: None,
                        value: Some("1".into()),
                    }]
                }
                else
                {
                    vec![]
                },
                ref_kv: None,
                ref_modifier: None,
                msg_prefix: String::new(),
                msg_body: format!("m{}", lay),
                args: vec![],
                trailing_comma: false,
                gaps: vec![if lay & 64 != 0 { 2 } else { 0 }],
                before: 0,
                after: 0,
                preamble: Preamble::None,
                trailing_directive: None,
                name_gap: file_gap,
                bang_gap: 0,
            };
            let set_ref = |s: &mut StmtSpec, n: u32| {
                if case.structured
                {
                    s.ref_kv = Some(((*lay as usize) % 2, n.to_string()));
                }
                else
                {
                    s.msg_prefix = format!("[ref: {}] ", n);
                }
            };
            let ignore = Preamble::Directive {
                kind: DirKind::Ignore,
                block: false,
                case_mask: 0,
                ws_before: " ".into(),
                ws_after: "".into(),
                indent: "    ".into(),
                blanks: vec![],
            };
            match k
            {
                SKind::Missing => (),
                SKind::Has(n) =>
                {
                    set_ref(&mut s, *n);
                    existing.push(*n);
                },
                SKind::IgnoredMissing => s.preamble = ignore,
                SKind::IgnoredHas(n) =>
                {
                    set_ref(&mut s, *n);
                    s.preamble = ignore;
                },
                SKind::Unusable =>
                {
                    if case.structured
                    {
                        s.ref_kv = Some((0, "next_id()".into()));
                    }
                    else
                    {
                        s.msg_prefix = "[ref: x] ".into();
                    }
                },
                SKind::OutsideHas(n) =>
                {
                    let text = if case.structured { format!("// info!(ref = {}; \"c\");", n) } else { format!("// info!(\"[ref: {}] c\");", n) };
                    items.push(Item::Decoy(Decoy::LineComment(text)));
                    continue;
                },
            }
            items.push(Item::Stmt(s));
        }
        if items.is_empty()
        {
            items.push(Item::Filler("fn nothing() {}".into()));
        }
        files.push((
            if fi < FILE_NAMES.len() { FILE_NAMES[fi].to_string() } else { format!("many/m{}/f{}.rs", fi % 7, fi) },
            FileSpec {
                items,
                eol: Eol::Lf,
                final_newline: true,
                bom: false,
            },
        ));
    }
    let max_e = existing.iter().copied().max().unwrap_or(0);
    let (lock, lock_in_use) = match &case.lock
    {
        LockMode::Absent =>
        {
            cfg.use_cache = if case.files.len() % 2 == 0 { Some(true) } else { None };
            (LockSpec::Absent, None)
        },
        LockMode::Disabled(v) =>
        {
            cfg.use_cache = Some(false);
            (v.map(LockSpec::Valid).unwrap_or(LockSpec::Absent), None)
        },
        LockMode::Ahead(delta) =>
        {
            cfg.use_cache = Some(true);
            // a consistent lock is ahead of every ID in the tree
            let v = (max_e as u64 + 1 + *delta as u64).min(u32::MAX as u64) as u32;
            if v > max_e
            {
                (LockSpec::Valid(v), Some(v))
            }
            else
            {
                // max_e == u32::MAX: no consistent lock value exists
                (LockSpec::Absent, None)
            }
        },
    };
    (ModelTree { cfg, files, lock }, existing, lock_in_use)
}

fn check(case: &C01Case) -> CaseOutcome
{
    let mut o = CaseOutcome::default();
    let (mt, existing, lock_in_use) = build(case);
    let (tree, rendered) = mt.render();
    let sb = Sandbox::new();
    materialise(&sb.proj(), &tree);
    let run = simple_run(&sb, false);
    o.evals = 1;
    let after = read_files(&sb.proj());
    let mut devs = Vec::new();
    no_crash(&run, "edit", &mut devs);
    let e_set: BTreeSet<u128> = existing.iter().map(|x| *x as u128).collect();
    let max_e = existing.iter().copied().max().unwrap_or(0) as u128;
    let mut inserted: Vec<(String, u128)> = Vec::new();
    let mut n_missing = 0u128;
    let mut files_with_ins = 0;
    for (rel, r) in &rendered
    {
        n_missing += r.stmts.iter().filter(|s| matches!(s.expect, Expect::Missing { .. })).count() as u128;
        let new = match after.get(rel)
        {
            Some(n) => n,
            None => continue,
        };
        match decompose(r.text.as_bytes(), new)
        {
            Err(m) => devs.push(dev("not-insertion-only", format!("{}: {}", rel, m))),
            Ok(ins) =>
            {
                if !ins.is_empty()
                {
                    files_with_ins += 1;
                }
                for i in ins
                {
                    inserted.push((rel.clone(), i.value().unwrap_or(u128::MAX)));
                }
            },
        }
    }
    let start: u128 = match lock_in_use
    {
        Some(v) => v as u128,
        None => max_e + 1,
    };
    let exhausted = n_missing > 0 && start + n_missing - 1 > u32::MAX as u128;
    // exactly reaching the last value: the statement allows either outcome (a run may refuse to
    // hand out 4294967295 itself), but whatever was inserted must still be unique and in range
    let edge = n_missing > 0 && start + n_missing - 1 == u32::MAX as u128;
    // range
    for (rel, id) in &inserted
    {
        if *id < 1 || *id > u32::MAX as u128
        {
            devs.push(dev("id-out-of-range", format!("{}: inserted ID {} is outside 1..=4294967295", rel, id)));
        }
        if e_set.contains(id)
        {
            devs.push(dev("id-collides-with-existing", format!("{}: inserted ID {} is already carried by a recognised statement", rel, id)));
        }
    }
    let mut seen = BTreeSet::new();
    for (rel, id) in &inserted
    {
        if !seen.insert(*id)
        {
            devs.push(dev("id-duplicate", format!("{}: ID {} was inserted twice in one run", rel, id)));
        }
    }
    if let Some(min_i) = inserted.iter().map(|x| x.1).min()
    {
        match lock_in_use
        {
            None =>
            {
                if !existing.is_empty() && min_i <= max_e
                {
                    devs.push(dev("id-not-above-existing", format!("smallest inserted ID {} is not greater than the largest existing ID {}", min_i, max_e)));
                }
            },
            Some(v) =>
            {
                if min_i < v as u128
                {
                    devs.push(dev("id-below-lock", format!("smallest inserted ID {} is below the lock value {}", min_i, v)));
                }
            },
        }
    }
    if exhausted
    {
        o.class("range-exhausted");
        if run.exit.success()
        {
            devs.push(dev(
                "exhaustion-not-reported",
                format!("{} reference(s) are missing starting from {} which exceeds 4294967295, yet the run exited 0 (inserted {:?})", n_missing, start, inserted.iter().map(|x| x.1).collect::<Vec<_>>()),
            ));
        }
    }
    else if edge
    {
        o.class("range-exactly-used-up");
        if run.exit.success() && inserted.len() as u128 != n_missing
        {
            devs.push(dev("missing-not-all-inserted", format!("exit 0 but {} statement(s) lack a reference and {} token(s) were inserted", n_missing, inserted.len())));
        }
    }
    else
    {
        if !run.exit.success()
        {
            devs.push(dev("edit-failed", format!("fault-free edit failed ({}):\n{}", run.exit.describe(), run.output_tail())));
        }
        if inserted.len() as u128 != n_missing
        {
            devs.push(dev("missing-not-all-inserted", format!("{} statement(s) lack a reference but {} token(s) were inserted", n_missing, inserted.len())));
        }
    }
    // C17 judges panics; for the exhaustion case a panic counts as "fails" here
    if exhausted || edge
    {
        devs.retain(|d| d.signature != "panic");
    }
    let boundary = existing.iter().any(|e| *e >= u32::MAX - 8) || matches!(lock_in_use, Some(v) if v >= u32::MAX - 8);
    if boundary
    {
        o.class("near-u32-boundary");
    }
    o.class(if case.structured { "structured" } else { "unstructured" });
    o.class(match case.lock
    {
        LockMode::Absent => "lock-absent",
        LockMode::Disabled(_) => "lock-disabled",
        LockMode::Ahead(_) => "lock-consistent",
    });
    if existing.contains(&0)
    {
        o.class("existing-id-zero");
    }
    let cross_file = files_with_ins >= 2 && !existing.is_empty();
    o.nontrivial = cross_file || (boundary && n_missing > 0);
    let _ = hash_of(&0);
    o.deviations = devs;
    o.sample = Some(json!({"structured": case.structured, "lock": format!("{:?}", case.lock), "existing_ids": existing, "missing": n_missing as u64,
        "inserted_ids": inserted.iter().map(|x| x.1.to_string()).collect::<Vec<_>>(), "exit": run.exit.describe()}));
    o
}

pub fn run(env: &Env, rec: &Recorder) -> (String, Vec<&'static str>)
{
    pbt(env, rec, "ids", env.cases(4000, 60_000), &strategy, &check);
    (
        "trees of 1-8 files with 0-12 statements each (10 %: 20-60 small files; 2.5 %: 513-700 files); every statement independently missing / carrying an ID / ignored / unusable / commented-out; ID classes small-dense, sparse, 0, u32::MAX-j, arbitrary, duplicates; both styles; lock absent / disabled with arbitrary content / consistent (max+1+delta, incl. values whose range crosses u32::MAX). Oracle over the decomposed insertions: pairwise distinct, disjoint from IDs of recognised statements, within 1..=4294967295, above max existing (no lock) or >= lock; on exhaustion exit != 0 and still no duplicate / out-of-range ID. Non-trivial = distinct tree where >= 2 files receive insertions and IDs exist, or a boundary-class tree with missing references".to_string(),
        vec!["inconsistent locks (behind the tree) are outside the statement and not generated", "IDs of statements outside the scanned set (comments, ignored) may collide and are not required disjoint"],
    )
}
