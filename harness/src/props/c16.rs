//! C16: configuration switches and defaults mean what the guide says.
//! The full matrix of switch values x lock states x modes is enumerated.

use crate::engine::{enumerate, hash_of, CaseOutcome, Env, Recorder};
use crate::gen::{parse_lock, LOCK_HEADER};
use crate::oracle::{decompose, TokKind};
use crate::props::common::no_crash;
use crate::sandbox::*;
use serde::{Deserialize, Serialize};
use serde_json::json;

#[derive(Clone, Debug, PartialEq, Eq, Hash, Serialize, Deserialize)]
pub struct C16Case
{
    pub use_cache: Option<bool>,
    pub structured: Option<bool>,
    /// 0 omitted, 1 [rs], 2 [rsx], 3 [rs, ""]
    pub extensions: u8,
    /// 0 absent 1 valid-ahead 2 corrupt text 3 empty 4 wrong type 5 negative 6 > u32
    pub lock: u8,
    pub check_mode: bool,
    pub has_missing: bool,
    /// 0 none; 1 config missing 2 invalid yaml 3 wrong shape 4 source_dir key absent 5 source dir missing 6 source dir is a file 7 nothing in scope 8 extensions [""] with only extension-less and other files (nothing in scope)
    pub error_point: u8,
    pub variety: u16,
}

/// value of the lock file lying in the directory ABOVE the project (it belongs to something else)
const FOREIGN_LOCK: u32 = 500_000;

fn yaml(c: &C16Case) -> String
{
    let mut y = String::from("---\n");
    match c.error_point
    {
        4 => (),
        5 => y.push_str("source_dir: ./nope\n"),
        6 => y.push_str("source_dir: ./Breadlog.yaml\n"),
        9 => y.push_str("source_dir: ./src/a.rs\n"),
        10 => y.push_str("source_dir: ./link_to_a.rs\n"),
        _ => y.push_str("source_dir: ./src\n"),
    }
    if let Some(u) = c.use_cache
    {
        y.push_str(&format!("use_cache: {}\n", u));
    }
    y.push_str("rust:\n");
    if let Some(s) = c.structured
    {
        y.push_str(&format!("  structured: {}\n", s));
    }
    y.push_str("  log_macros:\n    - module: log\n      name: info\n    - module: log\n      name: warn\n");
    let ext = match c.error_point
    {
        7 => 9,
        8 => 8,
        _ => c.extensions,
    };
    match ext
    {
        1 => y.push_str("  extensions:\n    - rs\n"),
        2 => y.push_str("  extensions:\n    - rsx\n"),
        3 => y.push_str("  extensions:\n    - rs\n    - \"\"\n"),
        8 => y.push_str("  extensions:\n    - \"\"\n"),
        9 => y.push_str("  extensions:\n    - zzz\n"),
        _ => (),
    }
    y
}

fn lock_text(kind: u8, ahead: u32) -> Option<String>
{
    match kind
    {
        0 => None,
        1 => Some(format!("{}next_reference_id: {}\n", LOCK_HEADER, ahead)),
        2 => Some("this is [not: a lock file\n".to_string()),
        3 => Some(String::new()),
        4 => Some("next_reference_id: abc\n".to_string()),
        5 => Some("next_reference_id: -5\n".to_string()),
        _ => Some("next_reference_id: 4294967296\n".to_string()),
    }
}

struct Built
{
    tree: Tree,
    existing_max: u32,
}

fn build(c: &C16Case, lock_kind: u8) -> Built
{
    let structured = c.structured.unwrap_or(false);
    let n_existing = (c.variety % 5) as u32;
    let n_missing = if c.has_missing { 1 + (c.variety / 5 % 3) as u32 } else { 0 };
    let mut a = String::from("fn a() {\n");
    for i in 1..=n_existing
    {
        if structured
        {
            a.push_str(&format!("    info!(ref = {}; \"existing {}\");\n", i, i));
        }
        else
        {
            a.push_str(&format!("    info!(\"[ref: {}] existing {}\");\n", i, i));
        }
    }
    for i in 0..n_missing
    {
        a.push_str(&format!("    warn!(\"needs {}\");\n", i));
    }
    a.push_str("}\n");
    let mut tree = Tree::new();
    tree.insert("src".into(), Node::Dir);
    tree.insert("src/a.rs".into(), Node::File(a.into_bytes()));
    let canary = if c.has_missing { "fn b() {\n    info!(\"rsx canary\");\n}\n".to_string() } else if structured { "fn b() {\n    info!(ref = 77; \"rsx canary\");\n}\n".to_string() } else { "fn b() {\n    info!(\"[ref: 77] rsx canary\");\n}\n".to_string() };
    tree.insert("src/b.rsx".into(), Node::File(canary.into_bytes()));
    // files without any extension never are in scope, whatever the extension list says
    tree.insert("src/notes".into(), Node::File(b"fn n() {\n    info!(\"no extension\");\n}\n".to_vec()));
    tree.insert("src/sub".into(), Node::Dir);
    tree.insert("src/sub/.hidden".into(), Node::File(b"fn h() {\n    warn!(\"dot file\");\n}\n".to_vec()));
    if c.has_missing
    {
        tree.insert("src/sub/c.rs".into(), Node::File(b"fn c() {\n    info!(\"deep\");\n}\n".to_vec()));
    }
    if c.error_point == 10
    {
        tree.insert("link_to_a.rs".into(), Node::Symlink("src/a.rs".into()));
    }
    // an ordinary Rust project around it
    tree.insert("Cargo.toml".into(), Node::File(b"[package]\nname = \"demo\"\nversion = \"0.1.0\"\nedition = \"2021\"\n".to_vec()));
    match c.error_point
    {
        1 => (),
        2 => drop(tree.insert("Breadlog.yaml".into(), Node::File(b"---\n: this is invalid YAML\n  -".to_vec()))),
        3 => drop(tree.insert("Breadlog.yaml".into(), Node::File(b"- just\n- a\n- list\n".to_vec()))),
        _ => drop(tree.insert("Breadlog.yaml".into(), Node::File(yaml(c).into_bytes()))),
    }
    let existing_max = n_existing.max(if c.has_missing { 0 } else { 77 });
    if let Some(l) = lock_text(lock_kind, existing_max.max(77) + 4)
    {
        tree.insert("Breadlog.lock".into(), Node::File(l.into_bytes()));
    }
    Built { tree, existing_max }
}

fn run_case(tree: &Tree, check: bool) -> (RunResult, Snapshot, Snapshot, Sandbox)
{
    let sb = Sandbox::new();
    materialise(&sb.proj(), tree);
    // the project is nested in a bigger working tree that has a lock file of its own
    let _ = std::fs::create_dir_all(sb.root.join(".git"));
    let _ = std::fs::write(sb.root.join(".git/HEAD"), b"ref: refs/heads/main\n");
    let _ = std::fs::write(sb.root.join("Breadlog.lock"), format!("{}next_reference_id: {}\n", LOCK_HEADER, FOREIGN_LOCK));
    let before = snapshot(&sb.root);
    let r = simple_run(&sb, check);
    let after = snapshot(&sb.root);
    (r, before, after, sb)
}

fn inserted(tree: &Tree, after: &Snapshot) -> Result<Vec<(String, u128, TokKind)>, String>
{
    let mut out = Vec::new();
    for (rel, node) in tree
    {
        if let Node::File(orig) = node
        {
            if rel == "Breadlog.lock"
            {
                continue;
            }
            let new = after.get(&format!("proj/{}", rel)).and_then(|e| e.content.clone()).ok_or_else(|| format!("{} vanished", rel))?;
            let ins = decompose(orig, &new).map_err(|m| format!("{}: {}", rel, m))?;
            for i in ins
            {
                out.push((rel.clone(), i.value().unwrap_or(0), i.kind));
            }
        }
    }
    Ok(out)
}

fn ids_from_foreign_lock(ins: &[(String, u128, TokKind)]) -> bool
{
    ins.iter().any(|x| x.1 >= FOREIGN_LOCK as u128 && x.1 < FOREIGN_LOCK as u128 + 100_000)
}

/// Error point 5 once more, started from the directory above the project (configuration path `proj/Breadlog.yaml` or
/// absolute) where a directory of the configured relative name DOES exist and holds a file lacking a reference:
/// the source directory still is missing, because it resolves against the configuration file (round-10 seed C16).
fn run_case_from_parent(tree: &Tree, check: bool, absolute: bool) -> (RunResult, Snapshot, Snapshot, Sandbox)
{
    let sb = Sandbox::new();
    materialise(&sb.proj(), tree);
    let _ = std::fs::create_dir_all(sb.root.join(".git"));
    let _ = std::fs::write(sb.root.join(".git/HEAD"), b"ref: refs/heads/main\n");
    let _ = std::fs::write(sb.root.join("Breadlog.lock"), format!("{}next_reference_id: {}\n", LOCK_HEADER, FOREIGN_LOCK));
    let _ = std::fs::create_dir_all(sb.root.join("nope"));
    let _ = std::fs::write(sb.root.join("nope/decoy.rs"), b"fn d() {\n    warn!(\"cwd-relative decoy\");\n}\n");
    let before = snapshot(&sb.root);
    let rel = sb.proj().strip_prefix(&sb.root).map(|p| p.to_path_buf()).unwrap_or_else(|_| sb.proj());
    let config_arg = if absolute { sb.proj().join("Breadlog.yaml") } else { rel.join("Breadlog.yaml") };
    let r = crate::sandbox::run_breadlog(&crate::sandbox::RunSpec {
        check,
        cwd: sb.root.clone(),
        config_arg: config_arg.to_string_lossy().into_owned(),
        tmpdir: sb.tmp(),
        plan: None,
        trace: false,
        roots: vec![sb.root.clone()],
        timeout: std::time::Duration::from_secs(120),
    });
    let after = snapshot(&sb.root);
    (r, before, after, sb)
}

pub fn check(c: &C16Case) -> CaseOutcome
{
    let mut o = CaseOutcome::default();
    // the configuration path is spelled `Breadlog.yaml`, `./Breadlog.yaml` or absolute, fixed per matrix point
    let _cfg_form = crate::sandbox::ConfigFormGuard::new((crate::engine::hash_of(c) % 3) as u8);
    let b = build(c, c.lock);
    let (r, before, after, sb) = run_case(&b.tree, c.check_mode);
    o.evals = 1;
    let mut devs = Vec::new();
    no_crash(&r, "run", &mut devs);
    o.deviations = devs;
    let what = format!("{:?}", c);
    if c.error_point != 0
    {
        o.class("error-point");
        if r.exit.success()
        {
            o.fail("invalid-setup-accepted", format!("{}: exit 0 for an invalid configuration / empty scope", what));
        }
        let diff = snapshot_diff(&before, &after, true, &|_| false);
        if !diff.is_empty()
        {
            o.fail("invalid-setup-changed-files", format!("{}: {:?}", what, diff));
        }
        if c.error_point == 5
        {
            let (r2, b2, a2, _sb2) = run_case_from_parent(&b.tree, c.check_mode, crate::engine::hash_of(c) % 2 == 1);
            o.evals += 1;
            o.class("error-point-missing-source-dir-from-parent-with-decoy");
            let mut d2 = Vec::new();
            no_crash(&r2, "run from the parent directory", &mut d2);
            o.deviations.extend(d2);
            if r2.exit.success()
            {
                o.fail("invalid-setup-accepted", format!("{}: started from the parent directory (which has a ./nope of its own): exit 0 although <config dir>/nope does not exist", what));
            }
            let diff2 = snapshot_diff(&b2, &a2, true, &|_| false);
            if !diff2.is_empty()
            {
                o.fail("invalid-setup-changed-files", format!("{}: started from the parent directory: {:?}", what, diff2));
            }
        }
        o.nontrivial = true;
        return o;
    }
    let cache = c.use_cache.unwrap_or(true);
    let structured = c.structured.unwrap_or(false);
    let rsx = c.extensions == 2;
    let lock_before = before.get("proj/Breadlog.lock").cloned();
    let lock_after = after.get("proj/Breadlog.lock").cloned();
    if c.check_mode
    {
        let diff = snapshot_diff(&before, &after, true, &|_| false);
        if !diff.is_empty()
        {
            o.fail("check-changed-filesystem", format!("{}: {:?}", what, diff));
        }
        if r.exit.success() == c.has_missing
        {
            o.fail("check-exit-status", format!("{}: --check {} with has_missing={}", what, r.exit.describe(), c.has_missing));
        }
        let files: Vec<String> = r.report.file_totals.iter().map(|x| x.0.clone()).collect();
        let saw_rsx = files.iter().any(|f| f.ends_with(".rsx"));
        let saw_rs = files.iter().any(|f| f.ends_with(".rs"));
        let saw_other = files.iter().any(|f| !f.ends_with(".rsx") && !f.ends_with(".rs"));
        if saw_rsx != rsx || saw_rs == rsx || saw_other
        {
            o.fail("extensions-default", format!("{}: --check scanned {:?}", what, files));
        }
    }
    else
    {
        let ins = match inserted(&b.tree, &after)
        {
            Ok(i) => i,
            Err(m) =>
            {
                o.fail("not-insertion-only", format!("{}: {}", what, m));
                return o;
            },
        };
        if !r.exit.success()
        {
            o.fail("edit-failed", format!("{}: {}\n{}", what, r.exit.describe(), r.output_tail()));
            return o;
        }
        // style and extension defaults
        for (rel, _, kind) in &ins
        {
            let is_kv = *kind != TokKind::Msg;
            if is_kv != structured
            {
                o.fail("structured-default", format!("{}: {} received a {:?} token", what, rel, kind));
            }
            if rel.ends_with(".rsx") != rsx || !(rel.ends_with(".rsx") || rel.ends_with(".rs"))
            {
                o.fail("extensions-default", format!("{}: {} was edited", what, rel));
            }
        }
        if ids_from_foreign_lock(&ins)
        {
            o.fail("ids-taken-from-a-foreign-lock", format!("{}: inserted IDs {:?} come from the lock file in the directory above the project ({})", what, ins.iter().map(|x| x.1).collect::<Vec<_>>(), FOREIGN_LOCK));
        }
        if c.has_missing && ins.is_empty()
        {
            o.fail("nothing-inserted", format!("{}: references are missing in scope but nothing was inserted", what));
        }
        let ids: Vec<u128> = {
            let mut v: Vec<u128> = ins.iter().map(|x| x.1).collect();
            v.sort();
            v
        };
        // baseline: same tree without a lock
        let needs_baseline = !cache || c.lock >= 2;
        if needs_baseline && c.lock != 0
        {
            let b0 = build(c, 0);
            let (_r0, _b0, a0, _sb0) = run_case(&b0.tree, false);
            o.evals += 1;
            let base: Vec<u128> = inserted(&b0.tree, &a0).map(|v| {
                let mut x: Vec<u128> = v.iter().map(|y| y.1).collect();
                x.sort();
                x
            }).unwrap_or_default();
            if base != ids
            {
                o.fail(
                    if cache { "unparsable-lock-not-ignored" } else { "disabled-lock-was-read" },
                    format!("{}: inserted IDs {:?}; with the lock absent the same tree gets {:?}", what, ids, base),
                );
            }
        }
        if !cache
        {
            let same = match (&lock_before, &lock_after)
            {
                (None, None) => true,
                (Some(a), Some(b)) => a.content == b.content && a.mtime_ns == b.mtime_ns && a.ino == b.ino,
                _ => false,
            };
            if !same
            {
                o.fail("disabled-lock-touched", format!("{}: use_cache is false but Breadlog.lock was created/changed", what));
            }
        }
        else
        {
            if c.lock == 1
            {
                let v = (b.existing_max.max(77) + 4) as u128;
                if ids.iter().any(|i| *i < v)
                {
                    o.fail("lock-not-used", format!("{}: lock says {} but IDs {:?} were inserted", what, v, ids));
                }
            }
            if !ids.is_empty()
            {
                let parsed = lock_after.as_ref().and_then(|e| e.content.as_ref()).and_then(|b| parse_lock(&String::from_utf8_lossy(b)));
                match parsed
                {
                    Some(v) if (v as u128) > *ids.last().unwrap() =>
                    {
                        // later runs start from it: delete the highest-ID statement, add a new one
                        let proj = sb.proj();
                        let max_id = *ids.last().unwrap();
                        let mut removed = false;
                        let edited: Vec<String> = ins.iter().filter(|x| x.1 == max_id).map(|x| x.0.clone()).collect();
                        for rel in edited.iter()
                        {
                            let p = proj.join(rel);
                            if let Ok(t) = std::fs::read_to_string(&p)
                            {
                                let pat1 = format!("[ref: {}] ", max_id);
                                let pat2 = format!("ref = {}", max_id);
                                if t.contains(&pat1) || t.contains(&pat2)
                                {
                                    let kept: Vec<&str> = t.lines().filter(|l| !(l.contains(&pat1) || l.contains(&pat2))).collect();
                                    let mut nt = kept.join("\n");
                                    nt.push('\n');
                                    // the new statement goes in the same file, before the last line
                                    let idx = nt[..nt.len() - 1].rfind('\n').map(|x| x + 1).unwrap_or(0);
                                    nt.insert_str(idx, "    warn!(\"added later\");\n");
                                    std::fs::write(&p, nt).unwrap();
                                    removed = true;
                                    break;
                                }
                            }
                        }
                        if removed
                        {
                            // the developer may also have edited the configuration file after the lock was written:
                            // make Breadlog.yaml 90 s newer than Breadlog.lock for half of the points
                            if c.variety % 2 == 0
                            {
                                if let Ok(md) = std::fs::metadata(proj.join("Breadlog.lock"))
                                {
                                    use std::os::unix::fs::MetadataExt;
                                    let t = libc::timespec {
                                        tv_sec: md.mtime() + 90,
                                        tv_nsec: 0,
                                    };
                                    let times = [t, t];
                                    let cpath = std::ffi::CString::new(proj.join("Breadlog.yaml").to_string_lossy().as_bytes()).unwrap();
                                    unsafe {
                                        libc::utimensat(libc::AT_FDCWD, cpath.as_ptr(), times.as_ptr(), 0);
                                    }
                                    o.class("config-newer-than-lock-before-second-run");
                                }
                            }
                            let before2 = read_files(&proj);
                            let r2 = simple_run(&sb, false);
                            o.evals += 1;
                            let after2 = read_files(&proj);
                            let mut new_ids = Vec::new();
                            for (rel, ob) in &before2
                            {
                                if rel == "Breadlog.lock"
                                {
                                    continue;
                                }
                                if let Some(nb) = after2.get(rel)
                                {
                                    if let Ok(i2) = decompose(ob, nb)
                                    {
                                        for i in i2
                                        {
                                            new_ids.push(i.value().unwrap_or(0));
                                        }
                                    }
                                }
                            }
                            if new_ids.is_empty() || !r2.exit.success()
                            {
                                o.fail("second-run-did-not-insert", format!("{}: second run {} inserted {:?}", what, r2.exit.describe(), new_ids));
                            }
                            else if new_ids.iter().any(|i| *i < v as u128)
                            {
                                o.fail(
                                    "later-run-ignored-lock",
                                    format!("{}: after deleting the statement with ID {} and adding a new one, the next run inserted {:?} although the lock said {}", what, max_id, new_ids, v),
                                );
                            }
                            o.class("second-run-after-deleting-highest");
                        }
                    },
                    other => o.fail(
                        "lock-not-written",
                        format!("{}: after inserting IDs {:?} the lock is {:?}", what, ids, other),
                    ),
                }
            }
        }
    }
    o.class(if c.check_mode { "mode-check" } else { "mode-edit" });
    o.class(&format!("lock-kind-{}", c.lock));
    o.nontrivial = !(c.use_cache == Some(true) && c.structured == Some(false) && c.extensions == 1 && c.lock == 0);
    let _ = hash_of(&0);
    o.sample = Some(json!({"case": what, "config": yaml(c), "exit": r.exit.describe()}));
    o
}

pub fn matrix(reps: u16) -> Vec<C16Case>
{
    let mut v = Vec::new();
    for rep in 0..reps
    {
        for use_cache in [None, Some(true), Some(false)]
        {
            for structured in [None, Some(true), Some(false)]
            {
                for extensions in 0..4u8
                {
                    for lock in 0..7u8
                    {
                        for check_mode in [false, true]
                        {
                            for has_missing in [true, false]
                            {
                                let variety = (v.len() as u16).wrapping_mul(7).wrapping_add(rep.wrapping_mul(13));
                                v.push(C16Case {
                                    use_cache,
                                    structured,
                                    extensions,
                                    lock,
                                    check_mode,
                                    has_missing,
                                    error_point: 0,
                                    variety,
                                });
                            }
                        }
                    }
                }
            }
        }
        for error_point in 1..=10u8
        {
            for check_mode in [false, true]
            {
                for lock in [0u8, 1, 2]
                {
                    for use_cache in [None, Some(false)]
                    {
                        v.push(C16Case {
                            use_cache,
                            structured: None,
                            extensions: 0,
                            lock,
                            check_mode,
                            has_missing: true,
                            error_point,
                            variety: rep,
                        });
                    }
                }
            }
        }
    }
    v
}

pub fn run(env: &Env, rec: &Recorder) -> (String, Vec<&'static str>)
{
    let reps = env.tier.pick(3u16, 20u16);
    let m = matrix(reps);
    rec.extra("matrix_points", json!(m.len()));
    enumerate(env, rec, "matrix", m, &check);
    rec.set_exhaustive(true);
    (
        "the complete matrix use_cache {omitted,true,false} x structured {omitted,true,false} x extensions {omitted,[rs],[rsx],[rs, empty string]} x lock {absent, valid ahead of the tree, corrupt text, empty, wrong type, negative, > u32} x mode {edit,check} x tree {references missing, none missing}, plus 10 error points (the missing-source-directory point also started from the directory above the project, which has a directory of the configured relative name holding a file that lacks a reference; source_dir naming a regular .rs file that lacks references, or a symbolic link to it; config missing, invalid YAML, wrong shape, source_dir key absent, source dir missing, source dir a file, nothing in scope, extension list holding only the empty string over a tree of extension-less, hidden and .rs files); the project always lies inside a bigger working tree (a `.git` directory and a foreign Breadlog.lock saying 500000 in the directory above it; no inserted ID may come from there); every tree holds an extension-less file and a dot file with statements lacking references, which never are in scope x mode x lock x use_cache; small trees vary with the point (thorough: 20 variants per point). Oracle (reference model of the guide): disabled cache => lock untouched and IDs equal to the lock-absent baseline; omitted == true: inserting edit writes a parsable lock ahead of its IDs and a later run (after deleting the highest statement and adding one; for half of the points also after the configuration file got a newer timestamp than the lock) starts from the lock; unparsable lock => IDs equal to the lock-absent baseline and lock rewritten; structured/extension defaults; every error point => exit != 0 and strict snapshot equality. Non-trivial = any point other than all-explicit defaults with the lock absent".to_string(),
        vec!["only unambiguous invalid configurations are asserted; unknown extra keys and an omitted rust stanza are not asserted either way", "exhaustive=true: every point of the stated matrix was visited"],
    )
}
