//! Shared pieces of the fault / crash / signal properties (C02 C04 C07 C08 C18):
//! sized trees, faulted runs on fresh copies, file-state classification.

use crate::gen::{ConfigSpec, LockSpec};
use crate::oracle::{decompose, Insertion};
use crate::sandbox::*;
use proptest::collection::vec;
use proptest::prelude::*;
use serde::{Deserialize, Serialize};
use std::collections::BTreeMap;
use std::path::PathBuf;

#[derive(Clone, Debug, PartialEq, Eq, Hash, Serialize, Deserialize)]
pub struct SizedFile
{
    /// bytes of ordinary code before the first statement
    pub pre_pad: u32,
    /// (already has a reference, bytes of padding after it)
    pub stmts: Vec<(bool, u32)>,
    pub post_pad: u32,
    pub final_newline: bool,
    /// put the first statement's line at exactly this byte offset (buffer-boundary classes)
    #[serde(default)]
    pub align: Option<u32>,
}

#[derive(Clone, Debug, PartialEq, Eq, Hash, Serialize, Deserialize)]
pub struct SizedTree
{
    pub structured: bool,
    pub cache: bool,
    /// lock present and consistent (only with cache)
    pub lock_ahead: Option<u16>,
    pub files: Vec<SizedFile>,
}

pub const SIZED_NAMES: &[&str] = &["a.rs", "b.rs", "sub/c.rs", "sub/d.rs", "e.rs", "f.rs", "g/h.rs", "i.rs"];

fn pad(out: &mut String, bytes: u32, counter: &mut u32)
{
    let mut n = 0u32;
    while n < bytes
    {
        let line = format!("    let pad_{:06} = {}; // ordinary padding line: Zürich, naïve, 日本\n", *counter, *counter % 97);
        n += line.len() as u32;
        out.push_str(&line);
        *counter += 1;
    }
}

impl SizedTree
{
    pub fn cfg(&self) -> ConfigSpec
    {
        ConfigSpec::simple(self.structured, Some(self.cache))
    }

    /// Render: (tree, source files relative paths with contents, number of statements lacking a reference, highest existing id)
    pub fn render(&self) -> (Tree, Vec<(String, Vec<u8>)>, usize, u32)
    {
        let mut tree = Tree::new();
        tree.insert("Breadlog.yaml".to_string(), Node::File(self.cfg().yaml().into_bytes()));
        tree.insert("README.md".to_string(), Node::File(b"not a source file: info!(\"readme\")\n".to_vec()));
        tree.insert("src".to_string(), Node::Dir);
        tree.insert("src/notes.txt".to_string(), Node::File(b"info!(\"not in scope\")\n".to_vec()));
        let mut next_id = 1u32;
        let mut missing = 0usize;
        let mut files = Vec::new();
        let mut counter = 0u32;
        for (fi, f) in self.files.iter().enumerate()
        {
            let mut t = String::from("fn generated() {\n");
            pad(&mut t, f.pre_pad, &mut counter);
            if let Some(a) = f.align
            {
                // fill with one exact-length comment line so that the next line starts at offset `a`
                let a = a as usize;
                while t.len() + 4 < a && a - t.len() > 200
                {
                    t.push_str("    // filler line up to a buffer boundary ....................................................\n");
                }
                if a > t.len() + 4
                {
                    let n = a - t.len() - 4;
                    t.push_str("// ");
                    t.push_str(&"a".repeat(n));
                    t.push('\n');
                }
            }
            for (si, (has, after)) in f.stmts.iter().enumerate()
            {
                let uid = format!("f{}s{}", fi, si);
                if *has
                {
                    if self.structured
                    {
                        t.push_str(&format!("    info!(ref = {}; \"{} already\");\n", next_id, uid));
                    }
                    else
                    {
                        t.push_str(&format!("    info!(\"[ref: {}] {} already\");\n", next_id, uid));
                    }
                    next_id += 1;
                }
                else
                {
                    t.push_str(&format!("    warn!(target: \"t{}\", \"{} needs a reference {{}}\", {});\n", fi, uid, si));
                    missing += 1;
                }
                pad(&mut t, *after, &mut counter);
            }
            pad(&mut t, f.post_pad, &mut counter);
            t.push_str("}\n");
            if !f.final_newline
            {
                t.pop();
            }
            let rel = format!("src/{}", SIZED_NAMES[fi % SIZED_NAMES.len()]);
            tree.insert(rel.clone(), Node::File(t.clone().into_bytes()));
            files.push((rel, t.into_bytes()));
        }
        if self.cache
        {
            if let Some(d) = self.lock_ahead
            {
                let l = LockSpec::Valid(next_id + d as u32);
                tree.insert("Breadlog.lock".to_string(), Node::File(l.content().unwrap().into_bytes()));
            }
        }
        (tree, files, missing, next_id - 1)
    }
}

fn size_class() -> BoxedStrategy<u32>
{
    prop_oneof![
        5 => 0u32..200,
        3 => 1_000u32..9_000,
        2 => 9_000u32..70_000,
        1 => 70_000u32..400_000,
    ]
    .boxed()
}

pub fn sized_file(min_stmts: usize, max_stmts: usize, big: bool) -> BoxedStrategy<SizedFile>
{
    let sc = if big { size_class() } else { (0u32..300).boxed() };
    let sc2 = if big { prop_oneof![4 => (0u32..100).boxed(), 1 => size_class()].boxed() } else { (0u32..100).boxed() };
    (
        sc.clone(),
        vec((prop_oneof![3 => Just(false), 1 => Just(true)], sc2), min_stmts..=max_stmts),
        sc,
        prop_oneof![4 => Just(true), 1 => Just(false)],
        if big
        {
            prop_oneof![
                5 => Just(None),
                2 => (proptest::sample::select(&[4096u32, 8192, 16384, 32768, 65536][..]), 0u32..90).prop_map(|(b, d)| Some(b + d - 45)),
            ]
            .boxed()
        }
        else
        {
            Just(None).boxed()
        },
    )
        .prop_map(|(pre_pad, stmts, post_pad, final_newline, align)| SizedFile {
            pre_pad: if align.is_some() { pre_pad.min(2000) } else { pre_pad },
            stmts,
            post_pad,
            final_newline,
            align,
        })
        .boxed()
}

pub fn sized_tree(min_files: usize, max_files: usize, max_stmts: usize, big: bool, cache: Option<bool>) -> BoxedStrategy<SizedTree>
{
    let cache_s = match cache
    {
        Some(c) => Just(c).boxed(),
        None => any::<bool>().boxed(),
    };
    (
        any::<bool>(),
        cache_s,
        proptest::option::weighted(0.4, 0u16..50),
        vec(sized_file(0, max_stmts, big), min_files..=max_files),
    )
        .prop_map(|(structured, cache, lock_ahead, mut files)| {
            // make sure at least one statement lacks a reference
            if !files.iter().any(|f| f.stmts.iter().any(|s| !s.0))
            {
                files[0].stmts.push((false, 10));
            }
            SizedTree {
                structured,
                cache,
                lock_ahead,
                files,
            }
        })
        .boxed()
}

pub struct FaultRun
{
    pub run: RunResult,
    /// project files after the run
    pub after: BTreeMap<String, Vec<u8>>,
    /// names left in TMPDIR
    pub tmp_left: Vec<String>,
    pub snap_before: Snapshot,
    pub snap_after: Snapshot,
    pub sandbox: Sandbox,
}

/// Fresh sandbox, materialise, run with the plan, collect the state.
pub fn fault_run(tree: &Tree, check: bool, plan: Option<String>, tmpdir: Option<PathBuf>) -> FaultRun
{
    let sb = Sandbox::new();
    materialise(&sb.proj(), tree);
    let snap_before = snapshot(&sb.root);
    let tmp = tmpdir.unwrap_or_else(|| sb.tmp());
    let mut roots = vec![sb.root.clone()];
    if !tmp.starts_with(&sb.root)
    {
        roots.push(tmp.clone());
    }
    let run = run_breadlog(&RunSpec {
        check,
        cwd: sb.proj(),
        config_arg: "Breadlog.yaml".to_string(),
        tmpdir: tmp.clone(),
        plan,
        trace: true,
        roots,
        timeout: std::time::Duration::from_secs(120),
    });
    let snap_after = snapshot(&sb.root);
    let after = read_files(&sb.proj());
    let tmp_left = std::fs::read_dir(&tmp)
        .map(|rd| rd.filter_map(|e| e.ok().map(|e| e.file_name().to_string_lossy().to_string())).collect())
        .unwrap_or_default();
    FaultRun {
        run,
        after,
        tmp_left,
        snap_before,
        snap_after,
        sandbox: sb,
    }
}

/// Does a trace show two source files (read-only opens of `*.rs` below `proj/src`) open at the same time?
pub fn trace_shows_overlapping_source_files(trace: &[TraceOp]) -> bool
{
    let mut open_src: std::collections::BTreeSet<i64> = std::collections::BTreeSet::new();
    for t in trace
    {
        if t.kind == "open" && t.ret >= 0 && (t.flags & 3) == 0 && t.path.contains("/proj/src/") && t.path.ends_with(".rs")
        {
            if !open_src.is_empty()
            {
                return true;
            }
            open_src.insert(t.ret);
        }
        else if t.kind == "close"
        {
            open_src.remove(&t.fd);
        }
    }
    false
}

/// One probe per process: does the subject work on one source file at a time? Eight files of about
/// 400 KB each (dozens of read calls per file) are scanned by a fault-free --check run; a subject
/// that processes files concurrently has two of them open at the same time there.
pub fn subject_is_sequential() -> bool
{
    static PROBE: std::sync::OnceLock<bool> = std::sync::OnceLock::new();
    *PROBE.get_or_init(|| {
        let mut tree = Tree::new();
        tree.insert(
            "Breadlog.yaml".to_string(),
            Node::File(b"---\nsource_dir: ./src\nuse_cache: false\nrust:\n  log_macros:\n    - module: log\n      name: info\n".to_vec()),
        );
        tree.insert("src".to_string(), Node::Dir);
        for i in 0..8
        {
            let mut t = String::with_capacity(420_000);
            t.push_str("fn f() {\n");
            while t.len() < 400_000
            {
                t.push_str("    let _x = compute(1, 2, 3); // filler\n");
            }
            t.push_str("    info!(\"[ref: 1] probe\");\n}\n");
            tree.insert(format!("src/p{}.rs", i), Node::File(t.into_bytes()));
        }
        let mut overlapping = false;
        for _ in 0..2
        {
            let r = fault_run(&tree, true, None, None);
            overlapping |= trace_shows_overlapping_source_files(&r.run.trace);
        }
        !overlapping
    })
}

pub fn applicable_errnos(kind: &str, flags: i64) -> Vec<&'static str>
{
    match kind
    {
        "open" =>
        {
            if flags & 0o100 != 0
            {
                vec!["EACCES", "EIO", "ENOSPC", "EMFILE"]
            }
            else
            {
                vec!["EACCES", "EIO", "EMFILE"]
            }
        },
        "write" => vec!["EIO", "ENOSPC"],
        "rename" => vec!["EXDEV", "EACCES", "EIO", "EEXIST", "EBUSY"],
        "unlink" => vec!["EACCES", "EIO"],
        "read" => vec!["EIO"],
        "close" => vec!["EIO"],
        "fsync" => vec!["EIO"],
        "stat" => vec!["EACCES", "EIO"],
        "opendir" => vec!["EACCES"],
        _ => vec!["EIO"],
    }
}

#[derive(Clone, Debug, PartialEq, Eq)]
pub enum FileState
{
    Untouched,
    /// complete update; the IDs that were inserted
    Updated(Vec<Insertion>),
    Missing,
    /// neither: description
    Corrupt(String),
}

/// Classify a source file after a (possibly faulted) run against the original
/// and the reference run's insertion offsets.
pub fn file_state(orig: &[u8], new: Option<&Vec<u8>>, ref_offsets: &[usize]) -> FileState
{
    let new = match new
    {
        Some(n) => n,
        None => return FileState::Missing,
    };
    if new == orig
    {
        return FileState::Untouched;
    }
    match decompose(orig, new)
    {
        Err(m) => FileState::Corrupt(format!("neither the original nor a complete update ({} bytes instead of {}): {}", new.len(), orig.len(), m)),
        Ok(ins) =>
        {
            let offs: Vec<usize> = ins.iter().map(|i| i.offset).collect();
            if offs == ref_offsets
            {
                FileState::Updated(ins)
            }
            else
            {
                FileState::Corrupt(format!("partial update: tokens at offsets {:?}, a complete update has them at {:?}", offs, ref_offsets))
            }
        },
    }
}

/// Insertion offsets per source file from a fault-free reference run.
pub fn reference_offsets(files: &[(String, Vec<u8>)], after: &BTreeMap<String, Vec<u8>>) -> Result<BTreeMap<String, Vec<usize>>, String>
{
    let mut m = BTreeMap::new();
    for (rel, orig) in files
    {
        let new = after.get(rel).ok_or_else(|| format!("{} vanished in the reference run", rel))?;
        let ins = decompose(orig, new).map_err(|e| format!("reference run on {}: {}", rel, e))?;
        m.insert(rel.clone(), ins.iter().map(|i| i.offset).collect());
    }
    Ok(m)
}

/// Entries of the project other than source files and the lock must be unchanged.
pub fn other_entries_changed(fr: &FaultRun, source_files: &[String]) -> Vec<String>
{
    let ignore = |k: &str| {
        let rel = k.strip_prefix("proj/").unwrap_or(k);
        k == "tmp"
            || k.starts_with("tmp/")
            || rel == "Breadlog.lock"
            || source_files.iter().any(|s| s == rel)
            || k == "proj"
            || {
                // directories' mtimes change when a file in them is replaced; compare only type/content
                false
            }
    };
    let mut d = snapshot_diff(&fr.snap_before, &fr.snap_after, false, &ignore);
    // scratch files left behind by a process that was KILLED are tolerated wherever the tool keeps
    // them (C08 judges left-overs of runs that exit by themselves)
    if matches!(fr.run.exit, Exit::Signal(_))
    {
        d.retain(|l| {
            let name = l.rsplit('/').next().unwrap_or("");
            !(l.starts_with("created: ") && (name.ends_with(".tmp") || name.starts_with("breadlog-") || name.starts_with(".breadlog")))
        });
    }
    d
}
