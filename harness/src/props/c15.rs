//! C15: only in-scope files are scanned; paths resolve against the config file.

use crate::engine::{hash_of, pbt, CaseOutcome, Env, Recorder};
use crate::gen::{ConfigSpec, MacroCfg};
use crate::oracle::decompose;
use crate::props::common::{no_crash, rel_path};
use crate::sandbox::*;
use proptest::collection::vec;
use proptest::prelude::*;
use serde::{Deserialize, Serialize};
use serde_json::json;
use std::collections::BTreeSet;

pub const NAMES: &[&str] = &[
    "a.rs", "b.RS", "c.rsx", "d.rs.bak", "e", "f.tar.rs", ".hidden.rs", "g.rs~", "rs", "sp ace.rs", "ünï.rs", "日本.rs", "h.Rs", "i.rs.", "j.txt", ".rs.swp", "k.r", "l.rss", "m.rsx.rs", "n.RSX",
];
pub const DIRS: &[&str] = &["", "sub", "sub/deep", "sub/deep/er", "x.rs", "other", "sp ace", "sub/x.rs/in", "a/b/c/d/e/f/g/h/i/j", ".hidden_dir", "ünï/日本", "n1/n2/n3/n4/n5/n6/n7/n8/n9/n10/n11/n12/n13/n14/n15/n16/n17/n18/n19/n20/n21/n22/n23/n24/n25/n26/n27/n28/n29/n30/n31/n32/n33/n34/n35/n36/n37/n38/n39/n40"];

#[derive(Clone, Debug, PartialEq, Eq, Hash, Serialize, Deserialize)]
pub enum Entry15
{
    /// regular file at dir/name inside the source dir
    File
    {
        dir: usize,
        name: usize,
    },
    /// symlink inside the source dir: (dir, link name, target kind)
    LinkToFileInside
    {
        dir: usize,
        name: usize,
    },
    LinkToFileOutside
    {
        dir: usize,
        name: usize,
    },
    LinkToDirInside
    {
        dir: usize,
    },
    LinkToDirOutside
    {
        dir: usize,
    },
    /// an in-scope file that has a second hard link outside the source dir
    HardLinked
    {
        dir: usize,
    },
    /// a `Breadlog.lock` of some other (vendored / nested) project in a directory below the source dir,
    /// with an ordinary source file next to it
    StrayLock
    {
        dir: usize,
    },
}

#[derive(Clone, Debug, PartialEq, Eq, Hash, Serialize, Deserialize)]
pub struct C15Case
{
    pub entries: Vec<Entry15>,
    pub extensions: Option<Vec<String>>,
    /// 0 "src", 1 "./src", 2 "sub/../src", 3 absolute
    pub source_dir_form: u8,
    /// 0 config dir, 1 its parent, 2 unrelated dir
    pub cwd_form: u8,
    pub config_abs: bool,
    pub check_mode: bool,
    pub structured: bool,
    /// configuration file in proj/conf/ (source_dir then goes through "..")
    #[serde(default)]
    pub config_in_subdir: bool,
    /// TMPDIR really on another filesystem: no file can be updated, but nothing out of scope may change either
    #[serde(default)]
    pub cross_fs_tmp: bool,
}

pub fn strategy() -> BoxedStrategy<C15Case>
{
    let e = prop_oneof![
        10 => (0..DIRS.len(), 0..NAMES.len()).prop_map(|(dir, name)| Entry15::File { dir, name }),
        1 => (0..DIRS.len(), 0..NAMES.len()).prop_map(|(dir, name)| Entry15::LinkToFileInside { dir, name }),
        1 => (0..DIRS.len(), 0..NAMES.len()).prop_map(|(dir, name)| Entry15::LinkToFileOutside { dir, name }),
        1 => (0..DIRS.len()).prop_map(|dir| Entry15::LinkToDirInside { dir }),
        1 => (0..DIRS.len()).prop_map(|dir| Entry15::LinkToDirOutside { dir }),
        1 => (0..DIRS.len()).prop_map(|dir| Entry15::HardLinked { dir }),
        1 => (0..DIRS.len()).prop_map(|dir| Entry15::StrayLock { dir }),
    ];
    let exts = prop_oneof![
        3 => Just(None),
        2 => Just(Some(vec!["rs".to_string()])),
        2 => Just(Some(vec!["rs".to_string(), "rsx".to_string()])),
        1 => Just(Some(vec!["RS".to_string()])),
        1 => Just(Some(vec!["txt".to_string()])),
        1 => Just(Some(vec!["rsx".to_string()])),
        1 => Just(Some(vec!["rs".to_string(), String::new()])),
        1 => Just(Some(vec![String::new()])),
    ];
    (vec(e, 1..14), exts, 0u8..7, 0u8..3, any::<bool>(), any::<bool>(), any::<bool>(), prop_oneof![3 => Just(false), 1 => Just(true)], prop_oneof![7 => Just(false), 1 => Just(true)])
        .prop_map(|(entries, extensions, source_dir_form, cwd_form, config_abs, check_mode, structured, config_in_subdir, cross_fs_tmp)| C15Case {
            entries,
            extensions,
            source_dir_form,
            cwd_form,
            config_abs,
            check_mode,
            structured,
            config_in_subdir,
            cross_fs_tmp,
        })
        .boxed()
}

/// The documented scope rule, written independently: the text after the last
/// '.' of the file name (a leading dot does not start an extension) equals a
/// configured extension exactly.
fn in_scope_name(name: &str, exts: &[String]) -> bool
{
    if name == ".."
    {
        return false;
    }
    let ext = match name.rfind('.')
    {
        Some(0) | None => return false,
        Some(p) => &name[p + 1..],
    };
    exts.iter().any(|e| e == ext)
}

fn canary(rel: &str) -> Vec<u8>
{
    format!("fn c() {{\n    info!(\"canary {}\");\n}}\n", rel.replace('"', "")).into_bytes()
}

pub fn check(case: &C15Case) -> CaseOutcome
{
    let mut o = CaseOutcome::default();
    let sb = Sandbox::new();
    let proj = sb.proj();
    // layout: proj/Breadlog.yaml, proj/src/** (source dir), proj/sub (for sub/../src), proj/elsewhere/**
    // form 6: the source dir is <config dir>/proj/src and is configured as "proj/src", i.e. its first
    // component repeats the name of the configuration directory; a decoy lives in <config dir>/src
    let nested = case.source_dir_form % 7 == 6 && !case.config_in_subdir;
    let src_rel: &str = if nested { "proj/src" } else { "src" };
    let src = proj.join(src_rel);
    std::fs::create_dir_all(&src).unwrap();
    std::fs::create_dir_all(proj.join("sub")).unwrap();
    std::fs::create_dir_all(proj.join("elsewhere/d")).unwrap();
    let exts: Vec<String> = case.extensions.clone().unwrap_or_else(|| vec!["rs".to_string()]);
    let mut expected: BTreeSet<String> = BTreeSet::new(); // relative to proj
    let mut all_files: Vec<String> = Vec::new();
    let put = |rel: &str, all_files: &mut Vec<String>| {
        let p = proj.join(rel);
        if let Some(parent) = p.parent()
        {
            let _ = std::fs::create_dir_all(parent);
        }
        if std::fs::symlink_metadata(&p).is_err()
        {
            std::fs::write(&p, canary(rel)).unwrap();
            all_files.push(rel.to_string());
            true
        }
        else
        {
            false
        }
    };
    // canaries outside the source dir
    for rel in ["root.rs", "elsewhere/out.rs", "elsewhere/d/deep.rs", "sub/sibling.rs"]
    {
        put(rel, &mut all_files);
    }
    if nested
    {
        put("src/decoy_in_config_dir_src.rs", &mut all_files);
    }
    let mut lookalikes = 0;
    let mut links = 0;
    let mut deep_in_scope = 0;
    for e in &case.entries
    {
        match e
        {
            Entry15::File { dir, name } =>
            {
                let d = DIRS[*dir % DIRS.len()];
                let n = NAMES[*name % NAMES.len()];
                let rel = if d.is_empty() { format!("{}/{}", src_rel, n) } else { format!("{}/{}/{}", src_rel, d, n) };
                if put(&rel, &mut all_files)
                {
                    if in_scope_name(n, &exts)
                    {
                        expected.insert(rel.clone());
                        if d.matches('/').count() >= 1
                        {
                            deep_in_scope += 1;
                        }
                    }
                    else
                    {
                        lookalikes += 1;
                    }
                }
            },
            Entry15::LinkToFileInside { dir, name } | Entry15::LinkToFileOutside { dir, name } =>
            {
                let d = DIRS[*dir % DIRS.len()];
                let n = NAMES[*name % NAMES.len()];
                let rel = if d.is_empty() { format!("{}/link_{}", src_rel, n) } else { format!("{}/{}/link_{}", src_rel, d, n) };
                let p = proj.join(&rel);
                let _ = std::fs::create_dir_all(p.parent().unwrap());
                let target = if matches!(e, Entry15::LinkToFileInside { .. })
                {
                    put(&format!("{}/target_inside.dat", src_rel), &mut all_files);
                    proj.join(src_rel).join("target_inside.dat")
                }
                else
                {
                    proj.join("elsewhere/out.rs")
                };
                if std::fs::symlink_metadata(&p).is_err()
                {
                    std::os::unix::fs::symlink(&target, &p).unwrap();
                    links += 1;
                }
            },
            Entry15::HardLinked { dir } =>
            {
                let d = DIRS[*dir % DIRS.len()];
                let rel = if d.is_empty() { format!("{}/hardlinked.rs", src_rel) } else { format!("{}/{}/hardlinked.rs", src_rel, d) };
                if put(&rel, &mut all_files)
                {
                    let partner = format!("elsewhere/partner_of_{}.txt", all_files.len());
                    if std::fs::hard_link(proj.join(&rel), proj.join(&partner)).is_ok()
                    {
                        all_files.push(partner);
                        links += 1;
                    }
                    if in_scope_name("hardlinked.rs", &exts)
                    {
                        expected.insert(rel.clone());
                    }
                }
            },
            Entry15::StrayLock { dir } =>
            {
                let d = DIRS[*dir % DIRS.len()];
                let base = if d.is_empty() { src_rel.to_string() } else { format!("{}/{}", src_rel, d) };
                let lock = format!("{}/Breadlog.lock", base);
                if put(&lock, &mut all_files)
                {
                    std::fs::write(proj.join(&lock), format!("{}next_reference_id: 4711\n", crate::gen::LOCK_HEADER)).unwrap();
                }
                let rel = format!("{}/next_to_lock.rs", base);
                if put(&rel, &mut all_files) && in_scope_name("next_to_lock.rs", &exts)
                {
                    expected.insert(rel.clone());
                }
            },
            Entry15::LinkToDirInside { dir } | Entry15::LinkToDirOutside { dir } =>
            {
                let d = DIRS[*dir % DIRS.len()];
                let rel = if d.is_empty() { format!("{}/linkdir", src_rel) } else { format!("{}/{}/linkdir", src_rel, d) };
                let p = proj.join(&rel);
                let _ = std::fs::create_dir_all(p.parent().unwrap());
                let target = if matches!(e, Entry15::LinkToDirInside { .. }) { proj.join(src_rel) } else { proj.join("elsewhere") };
                if std::fs::symlink_metadata(&p).is_err()
                {
                    std::os::unix::fs::symlink(&target, &p).unwrap();
                    links += 1;
                }
            },
        }
    }
    // configuration
    let conf_dir = if case.config_in_subdir { proj.join("conf") } else { proj.clone() };
    std::fs::create_dir_all(&conf_dir).unwrap();
    let source_dir = match (case.source_dir_form % 7, case.config_in_subdir)
    {
        (6, false) => "proj/src".to_string(),
        (6, true) => "../src".to_string(),
        (4, false) => "src/".to_string(),
        (5, false) => "./src/.".to_string(),
        (4, true) => "../src/".to_string(),
        (5, true) => "../src/./".to_string(),
        (0, false) => "src".to_string(),
        (1, false) => "./src".to_string(),
        (2, false) => "sub/../src".to_string(),
        (0, true) => "../src".to_string(),
        (1, true) => "./../src".to_string(),
        (2, true) => "../sub/../src".to_string(),
        _ => src.to_string_lossy().to_string(),
    };
    if case.config_in_subdir
    {
        // a look-alike source dir next to the configuration that must NOT be used
        put("conf/src/lookalike.rs", &mut all_files);
    }
    let cfg = ConfigSpec {
        source_dir,
        macros: vec![MacroCfg {
            module: "log".into(),
            name: "info".into(),
        }],
        structured: Some(case.structured),
        use_cache: Some(true),
        extensions: case.extensions.clone(),
    };
    std::fs::write(conf_dir.join("Breadlog.yaml"), cfg.yaml()).unwrap();
    // invocation directory, with a decoy src/ when it is not the config dir
    let cwd = match case.cwd_form % 3
    {
        0 => proj.clone(),
        1 => sb.root.clone(),
        _ => sb.cwd(),
    };
    if cwd != proj
    {
        let _ = std::fs::create_dir_all(cwd.join("src"));
        std::fs::write(cwd.join("src/decoy.rs"), canary("cwd-decoy")).unwrap();
    }
    let sub = if case.config_in_subdir { "conf/" } else { "" };
    let config_arg = if case.config_abs
    {
        conf_dir.join("Breadlog.yaml").to_string_lossy().to_string()
    }
    else
    {
        match case.cwd_form % 3
        {
            0 => format!("{}Breadlog.yaml", sub),
            1 => format!("proj/{}Breadlog.yaml", sub),
            _ => format!("../proj/{}Breadlog.yaml", sub),
        }
    };
    let cross_tmp = if case.cross_fs_tmp && !case.check_mode
    {
        let base = build_dir().join("work");
        let _ = std::fs::create_dir_all(&base);
        o.class("cross-filesystem-tmpdir");
        Some(Sandbox::new_in(&base))
    }
    else
    {
        None
    };
    let before = snapshot(&sb.root);
    let run = run_breadlog(&RunSpec {
        check: case.check_mode,
        cwd: cwd.clone(),
        config_arg,
        tmpdir: match &cross_tmp
        {
            Some(c) => c.root.clone(),
            None => sb.tmp(),
        },
        plan: None,
        trace: false,
        roots: vec![],
        timeout: std::time::Duration::from_secs(120),
    });
    o.evals = 1;
    let after = snapshot(&sb.root);
    let mut devs = Vec::new();
    no_crash(&run, if case.check_mode { "--check" } else { "edit" }, &mut devs);
    o.deviations = devs;
    let norm = |p: &str| -> String {
        // printed paths may be relative to cwd or absolute, and contain ./ and ../
        let abs = if p.starts_with('/') { std::path::PathBuf::from(p) } else { cwd.join(p) };
        // lexical normalisation first (../ and ./), then make it relative to the project
        let lexical = format!("/{}", rel_path(&abs.to_string_lossy(), std::path::Path::new("/")));
        rel_path(&lexical, &proj)
    };
    if case.check_mode
    {
        let reported: BTreeSet<String> = run.report.file_totals.iter().map(|(p, _)| norm(p)).collect();
        if expected.is_empty()
        {
            if run.exit.success()
            {
                o.fail("no-files-but-success", "no file is in scope, yet --check exited 0".to_string());
            }
        }
        else
        {
            if reported != expected
            {
                o.fail(
                    "check-scanned-wrong-set",
                    format!("--check scanned {:?}; the in-scope set is {:?}", reported, expected),
                );
            }
            let missing_files: BTreeSet<String> = run.report.missing.iter().map(|(p, _, _)| norm(p)).collect();
            if missing_files != expected
            {
                o.fail("check-reported-wrong-set", format!("--check reported missing references in {:?}; every in-scope file {:?} has exactly one", missing_files, expected));
            }
        }
        let diff = snapshot_diff(&before, &after, false, &|_| false);
        if !diff.is_empty()
        {
            o.fail("check-changed-filesystem", format!("{:?}", diff));
        }
    }
    else
    {
        let lock_rel_s = if case.config_in_subdir { "proj/conf/Breadlog.lock" } else { "proj/Breadlog.lock" };
        let lock_rel = lock_rel_s;
        for (k, ea) in &before
        {
            let eb = match after.get(k)
            {
                Some(e) => e,
                None =>
                {
                    o.fail("entry-removed", format!("{} disappeared", k));
                    continue;
                },
            };
            if ea.kind != eb.kind || ea.link != eb.link
            {
                o.fail("entry-type-changed", format!("{}: {} -> {} (symlink target {:?} -> {:?})", k, ea.kind, eb.kind, ea.link, eb.link));
                continue;
            }
            if ea.kind != 'f'
            {
                continue;
            }
            let rel = k.strip_prefix("proj/").unwrap_or("").to_string();
            let want_edit = k.starts_with("proj/") && expected.contains(&rel);
            let (a, b) = (ea.content.as_ref().unwrap(), eb.content.as_ref().unwrap());
            if want_edit && cross_tmp.is_some()
            {
                // every rename fails (EXDEV): the file may stay as it is, but it must not be damaged
                if a != b && decompose(a, b).is_err()
                {
                    o.fail("not-insertion-only", format!("{}: changed in a way that is not an insertion", k));
                }
            }
            else if want_edit
            {
                match decompose(a, b)
                {
                    Ok(ins) if ins.len() == 1 => (),
                    Ok(ins) => o.fail("in-scope-file-not-edited", format!("{} is in scope and lacks one reference; it received {} token(s)", k, ins.len())),
                    Err(m) => o.fail("not-insertion-only", format!("{}: {}", k, m)),
                }
            }
            else if a != b
            {
                o.fail("out-of-scope-file-modified", format!("{} is not in scope (extensions {:?}) but was modified", k, exts));
            }
        }
        for k in after.keys()
        {
            if !before.contains_key(k) && k != lock_rel
            {
                o.fail("unexpected-entry-created", format!("{} was created", k));
            }
        }
        if !expected.is_empty() && cross_tmp.is_none()
        {
            if !after.contains_key(lock_rel)
            {
                o.fail("lock-not-next-to-config", format!("no Breadlog.lock next to the configuration file after an inserting edit (exit: {}); created entries: {:?}", run.exit.describe(), after.keys().filter(|k| !before.contains_key(*k)).collect::<Vec<_>>()));
            }
            if !run.exit.success()
            {
                o.fail("edit-failed", format!("edit failed ({}):\n{}", run.exit.describe(), run.output_tail()));
            }
        }
        else if run.exit.success() && expected.is_empty()
        {
            o.fail("no-files-but-success", "no file is in scope, yet the edit run exited 0".to_string());
        }
    }
    o.class(if case.check_mode { "mode-check" } else { "mode-edit" });
    o.class(&format!("cwd-form-{}", case.cwd_form % 3));
    if case.config_in_subdir
    {
        o.class("config-in-subdirectory");
    }
    o.class(&format!("source-dir-form-{}", case.source_dir_form % 7));
    if links > 0
    {
        o.class("has-symlinks");
    }
    if expected.is_empty()
    {
        o.class("nothing-in-scope");
    }
    o.nontrivial = ((lookalikes > 0 || links > 0) && deep_in_scope > 0) || (case.cwd_form % 3 != 0 && !expected.is_empty());
    let _ = hash_of(&0);
    o.sample = Some(json!({"files": all_files, "extensions": exts, "in_scope": expected, "source_dir": cfg.source_dir.clone(), "cwd_form": case.cwd_form % 3, "config_abs": case.config_abs,
        "mode": if case.check_mode { "check" } else { "edit" }}));
    o
}

pub fn run(env: &Env, rec: &Recorder) -> (String, Vec<&'static str>)
{
    pbt(env, rec, "layouts", env.cases(4000, 60_000), &strategy, &check);
    (
        "directory layouts: up to 13 entries over 12 directory shapes (nesting up to 40, a directory named x.rs, names with spaces) x 20 file names (look-alike extensions .RS .rsx .rs.bak .rs~ .Rs 'rs' none, hidden, unicode, double extensions), symlinks to files and directories inside and outside the source dir, in-scope files with a second hard link outside the source dir, a foreign Breadlog.lock in a directory below the source dir, canary files outside the source dir and in a decoy src/ under the invocation directory; extension lists omitted/[rs]/[rs,rsx]/[RS]/[txt]/[rsx]/[rs, empty string]/[empty string]; one edit run in eight with TMPDIR really on another filesystem (then only 'nothing out of scope changes' is judged); source_dir as src, ./src, sub/../src, src/, ./src/., absolute, or `proj/src` below a configuration directory itself named `proj` (with a decoy src/ that a cwd-relative resolution would hit); configuration file in the project root or in a sub-directory (source_dir then contains `..`, with a look-alike src/ next to the configuration); invocation from the project dir, its parent, an unrelated dir; config path relative or absolute; both modes, both styles. Every regular file holds one statement lacking a reference. Oracle: independent scope rule; edit modifies exactly the in-scope set (one insertion each), everything else byte-identical, symlinks unchanged, Breadlog.lock only next to the config; --check scans and reports exactly the in-scope set. Non-trivial = distinct layout with a look-alike or symlink and an in-scope file at depth >= 2, or invoked from another directory".to_string(),
        vec!["the source dir itself being a symlink, non-UTF-8 file names and a file literally named .rs are not generated (the statement does not settle them)"],
    )
}
