//! C04: check mode never modifies anything — strict snapshot equality of the
//! whole sandbox plus "no mutating filesystem call at all" in the libc trace.

use crate::engine::{hash_of, idx16, pbt, CaseOutcome, Env, Recorder};
use crate::gen::*;
use crate::props::fault_common::applicable_errnos;
use crate::sandbox::*;
use proptest::prelude::*;
use serde::{Deserialize, Serialize};
use serde_json::json;

#[derive(Clone, Debug, PartialEq, Eq, Hash, Serialize, Deserialize)]
pub enum Breakage
{
    None,
    NoFilesInScope,
    MissingSourceDir,
    SourceDirIsFile,
    /// source_dir names a regular in-scope source file
    SourceDirIsSourceFile,
    InvalidYaml,
    MissingConfig,
}

#[derive(Clone, Debug, PartialEq, Eq, Hash, Serialize, Deserialize)]
pub enum CheckPlan
{
    None,
    Sig
    {
        pos: u16,
        int: bool,
    },
    Fail
    {
        pos: u16,
        errno: u8,
    },
}

#[derive(Clone, Debug, PartialEq, Eq, Hash, Serialize, Deserialize)]
pub struct C04Case
{
    pub tree: ModelTree,
    pub breakage: Breakage,
    pub plan: CheckPlan,
    pub extras: bool,
    pub pre_edited: bool,
    /// TMPDIR points at a directory that does not exist (under a writable parent inside the sandbox)
    #[serde(default)]
    pub missing_tmpdir: bool,
    /// one more run whose standard output cannot be written: 0 none, 1 /dev/full, 2 pipe without reader, 3 closed descriptor
    #[serde(default)]
    pub broken_stdout: u8,
    /// an extra source file with this many plain statements lacking references (0 = none)
    #[serde(default)]
    pub bulk: u16,
}

pub fn strategy() -> BoxedStrategy<C04Case>
{
    let lock = prop_oneof![
        3 => Just(LockSpec::Absent),
        2 => (1u32..500).prop_map(LockSpec::Valid),
        1 => Just(LockSpec::Raw("this is: [not a lock".to_string())),
        1 => Just(LockSpec::Raw(String::new())),
        1 => Just(LockSpec::Raw("next_reference_id: -4\n".to_string())),
    ];
    let cache = prop_oneof![Just(None), Just(Some(true)), Just(Some(false))];
    let ext = prop_oneof![3 => Just(None), 1 => Just(Some(vec!["rs".to_string()])), 1 => Just(Some(vec!["rs".to_string(), "txt".to_string()]))];
    let breakage = prop_oneof![
        8 => Just(Breakage::None),
        1 => Just(Breakage::NoFilesInScope),
        1 => Just(Breakage::MissingSourceDir),
        1 => Just(Breakage::SourceDirIsFile),
        1 => Just(Breakage::SourceDirIsSourceFile),
        1 => Just(Breakage::InvalidYaml),
        1 => Just(Breakage::MissingConfig),
    ];
    let plan = prop_oneof![
        4 => Just(CheckPlan::None),
        2 => (any::<u16>(), any::<bool>()).prop_map(|(pos, int)| CheckPlan::Sig { pos, int }),
        2 => (any::<u16>(), any::<u8>()).prop_map(|(pos, errno)| CheckPlan::Fail { pos, errno }),
    ];
    let p = StmtParams {
        p_preamble: 10,
        ..StmtParams::default()
    };
    (model_tree(StructSel::AnyOrOmitted, p, 4, 6, true), lock, cache, ext, breakage, plan, any::<bool>(), prop_oneof![4 => Just(false), 1 => Just(true)], prop_oneof![5 => Just(false), 1 => Just(true)], prop_oneof![6 => Just(0u8), 1 => Just(1u8), 1 => Just(2u8), 1 => Just(3u8)], prop_oneof![24 => Just(0u16), 1 => proptest::sample::select(&[255u16, 256, 257, 1000, 1001, 1500, 4097][..])])
        .prop_map(|(mut tree, lock, cache, ext, breakage, plan, extras, pre_edited, missing_tmpdir, broken_stdout, bulk)| {
            tree.lock = lock;
            tree.cfg.use_cache = cache;
            tree.cfg.extensions = ext;
            C04Case {
                tree,
                breakage,
                plan,
                extras,
                pre_edited,
                missing_tmpdir,
                broken_stdout,
                bulk,
            }
        })
        .boxed()
}

pub fn check(case: &C04Case) -> CaseOutcome
{
    let mut o = CaseOutcome::default();
    let mut mt = case.tree.clone();
    match case.breakage
    {
        Breakage::NoFilesInScope => mt.cfg.extensions = Some(vec!["zzz".to_string()]),
        Breakage::MissingSourceDir => mt.cfg.source_dir = "./does-not-exist".to_string(),
        Breakage::SourceDirIsFile => mt.cfg.source_dir = "./Breadlog.yaml".to_string(),
        Breakage::SourceDirIsSourceFile => mt.cfg.source_dir = "./src/a.rs".to_string(),
        _ => (),
    }
    let (mut tree, rendered) = mt.render();
    if case.breakage == Breakage::InvalidYaml
    {
        tree.insert("Breadlog.yaml".into(), Node::File(b"---\n: this is invalid YAML\n  -".to_vec()));
    }
    if case.breakage == Breakage::MissingConfig
    {
        tree.remove("Breadlog.yaml");
    }
    if case.bulk > 0
    {
        let mut t = String::from("fn bulk() {\n");
        for i in 0..case.bulk
        {
            t.push_str(&format!("    info!(\"bulk statement {}\");\n", i));
        }
        t.push_str("}\n");
        tree.insert("src/zz_bulk.rs".into(), Node::File(t.into_bytes()));
        o.class(&format!("bulk-file-{}-statements", case.bulk));
    }
    // an ordinary Rust project around it
    tree.insert("Cargo.toml".into(), Node::File(b"[package]\nname = \"demo\"\nversion = \"0.1.0\"\nedition = \"2021\"\n".to_vec()));
    tree.insert(".gitignore".into(), Node::File(b"/target\n".to_vec()));
    if case.extras
    {
        tree.insert("README.md".into(), Node::File(b"info!(\"readme\")\n".to_vec()));
        tree.insert("src/data.bin".into(), Node::File(vec![0, 159, 146, 150, 255]));
        tree.insert("src/link_to_a.rs".into(), Node::Symlink("a.rs".into()));
        tree.insert("linkdir".into(), Node::Symlink("src".into()));
        tree.insert("src/empty_dir".into(), Node::Dir);
        tree.insert("src/notes.txt".into(), Node::File(b"info!(\"txt\")\n".to_vec()));
    }
    let sb = Sandbox::new();
    materialise(&sb.proj(), &tree);
    std::fs::write(sb.outside().join("other.rs"), b"fn o() { info!(\"outside\"); }\n").unwrap();
    std::fs::write(sb.tmp().join("old-breadlog-left.tmp"), b"x").unwrap();
    // left-overs of earlier (killed) runs, some of them old: --check must not clean anything up either
    for (i, (name, age_s)) in [
        ("breadlog-0b5c1d0e-aaaa-4bbb-8ccc-111111111111.tmp", 7200i64),
        ("breadlog-lock-0b5c1d0e-aaaa-4bbb-8ccc-222222222222.tmp", 3 * 86400),
        ("breadlog-0b5c1d0e-aaaa-4bbb-8ccc-333333333333.tmp", 5),
    ]
    .iter()
    .enumerate()
    {
        for dir in [sb.tmp(), sb.proj()]
        {
            if dir == sb.proj() && i != 0
            {
                continue;
            }
            let pth = dir.join(name);
            std::fs::write(&pth, b"stale scratch content\n").unwrap();
            let now = std::time::SystemTime::now().duration_since(std::time::UNIX_EPOCH).map(|d| d.as_secs() as i64).unwrap_or(0);
            let t = libc::timespec {
                tv_sec: now - age_s,
                tv_nsec: 0,
            };
            let times = [t, t];
            let c = std::ffi::CString::new(pth.to_string_lossy().as_bytes()).unwrap();
            unsafe {
                libc::utimensat(libc::AT_FDCWD, c.as_ptr(), times.as_ptr(), 0);
            }
        }
    }
    if case.pre_edited
    {
        let _ = simple_run(&sb, false);
        o.evals += 1;
        o.class("nothing-missing-tree");
    }
    // recording run (also judged)
    let mut runs: Vec<(String, RunResult, Vec<String>)> = Vec::new();
    let tmpdir = if case.missing_tmpdir { sb.root.join("job-scratch").join("breadlog") } else { sb.tmp() };
    let run_check = |plan: Option<String>| {
        run_breadlog(&RunSpec {
            check: true,
            cwd: sb.proj(),
            config_arg: "Breadlog.yaml".to_string(),
            tmpdir: tmpdir.clone(),
            plan,
            trace: true,
            roots: vec![sb.root.clone()],
            timeout: std::time::Duration::from_secs(120),
        })
    };
    if case.missing_tmpdir
    {
        o.class("tmpdir-does-not-exist");
    }
    let before = snapshot(&sb.root);
    let rec = run_check(None);
    let after = snapshot(&sb.root);
    let diff = snapshot_diff(&before, &after, true, &|_| false);
    runs.push(("no plan".into(), rec.clone(), diff));
    let plan = match &case.plan
    {
        CheckPlan::None => None,
        other =>
        {
            let ops: Vec<&TraceOp> = rec.trace.iter().filter(|t| t.k > 0).collect();
            if ops.is_empty()
            {
                None
            }
            else
            {
                match other
                {
                    CheckPlan::Sig { pos, int } => Some(format!("sig:{}:{}", ops[idx16(*pos, ops.len())].k, if *int { 2 } else { 15 })),
                    CheckPlan::Fail { pos, errno } =>
                    {
                        let t = ops[idx16(*pos, ops.len())];
                        let e = applicable_errnos(&t.kind, t.flags);
                        Some(format!("fail:{}:{}", t.k, e[*errno as usize % e.len()]))
                    },
                    CheckPlan::None => None,
                }
            }
        },
    };
    if let Some(p) = plan
    {
        let before = snapshot(&sb.root);
        let r = run_check(Some(p.clone()));
        let after = snapshot(&sb.root);
        let diff = snapshot_diff(&before, &after, true, &|_| false);
        runs.push((p, r, diff));
    }
    if case.broken_stdout != 0
    {
        // the run cannot print its report (it may even die of that): it still must not modify anything
        let mode = match case.broken_stdout
        {
            1 => StdoutMode::DevFull,
            2 => StdoutMode::ClosedPipe,
            _ => StdoutMode::Closed,
        };
        let before = snapshot(&sb.root);
        let r = run_breadlog_with(
            &RunSpec {
                check: true,
                cwd: sb.proj(),
                config_arg: "Breadlog.yaml".to_string(),
                tmpdir: tmpdir.clone(),
                plan: None,
                trace: true,
                roots: vec![sb.root.clone()],
                timeout: std::time::Duration::from_secs(120),
            },
            mode,
        );
        let after = snapshot(&sb.root);
        let diff = snapshot_diff(&before, &after, true, &|_| false);
        o.class(&format!("stdout-unwritable-{:?}", mode));
        if !matches!(r.exit, Exit::Code(0) | Exit::Code(1))
        {
            o.class("run-died-of-unwritable-stdout");
        }
        runs.push((format!("standard output {:?}", mode), r, diff));
    }
    for (what, r, diff) in &runs
    {
        o.evals += 1;
        if r.exit == Exit::Timeout
        {
            o.inconclusive = Some("check run ran into the watchdog".into());
            continue;
        }
        if !diff.is_empty()
        {
            o.fail("check-changed-filesystem", format!("--check ({}; {}) changed the sandbox: {:?}", what, r.exit.describe(), diff));
        }
        let muts: Vec<String> = r
            .trace
            .iter()
            .filter(|t| t.mutating() && t.inj != "fail")
            .map(|t| format!("{} {} flags={:o}", t.kind, t.path, t.flags))
            .collect();
        if !muts.is_empty()
        {
            o.fail("check-issued-mutating-call", format!("--check ({}; {}) issued mutating filesystem calls: {:?}", what, r.exit.describe(), muts));
        }
        if !r.exit.success()
        {
            o.class("run-failed-or-found-missing");
        }
    }
    // cross-validation of the interposer at system-call level on a sample of cases:
    // the same run under strace must show no mutating file system call either
    if crate::engine::hash_of(case) % 25 == 0
    {
        let out = sb.root.join("strace.out");
        let st = std::process::Command::new("strace")
            .args(["-f", "-qq", "-e", "trace=openat,open,creat,rename,renameat,renameat2,unlink,unlinkat,mkdir,mkdirat,rmdir,truncate,ftruncate,chmod,fchmod,fchmodat,link,linkat,symlink,symlinkat,utimensat,mknod,mknodat", "-o"])
            .arg(&out)
            .arg(breadlog_bin())
            .args(["-c", "Breadlog.yaml", "--check"])
            .current_dir(sb.proj())
            .env_clear()
            .env("TMPDIR", sb.tmp())
            .env("PATH", "/usr/bin:/bin")
            .stdout(std::process::Stdio::null())
            .stderr(std::process::Stdio::null())
            .status();
        if st.is_ok()
        {
            let text = std::fs::read_to_string(&out).unwrap_or_default();
            let _ = std::fs::remove_file(&out);
            let mut bad = Vec::new();
            for line in text.lines()
            {
                // "<pid> name(args..." ; lines such as "???( <detached ...>", "<... x resumed>", "+++ exited" carry no call
                let rest = line.trim_start().trim_start_matches(|c: char| c.is_ascii_digit()).trim_start();
                let name: String = rest.chars().take_while(|c| c.is_ascii_alphanumeric() || *c == '_').collect();
                if name.is_empty() || !rest[name.len()..].starts_with('(')
                {
                    continue;
                }
                const MUTATORS: &[&str] = &[
                    "rename", "renameat", "renameat2", "unlink", "unlinkat", "mkdir", "mkdirat", "rmdir", "truncate", "ftruncate", "chmod", "fchmod",
                    "fchmodat", "link", "linkat", "symlink", "symlinkat", "utimensat", "mknod", "mknodat",
                ];
                let is_open = name == "open" || name == "openat" || name == "creat";
                let mutating = if is_open
                {
                    (line.contains("O_WRONLY") || line.contains("O_RDWR") || line.contains("O_CREAT") || line.contains("O_TRUNC") || line.contains("O_APPEND") || name == "creat")
                        && !line.contains("\"/dev/null\"")
                        && !line.contains("\"/dev/tty\"")
                }
                else
                {
                    MUTATORS.contains(&name.as_str())
                };
                if mutating
                {
                    bad.push(line.to_string());
                }
            }
            o.evals += 1;
            o.class("strace-cross-validated");
            if !text.is_empty() && !bad.is_empty()
            {
                o.fail("check-issued-mutating-syscall", format!("--check under strace issued: {:?}", bad.iter().take(5).collect::<Vec<_>>()));
            }
        }
    }
    o.class(match case.breakage
    {
        Breakage::None => "config-ok",
        _ => "config-or-tree-broken",
    });
    o.class(match case.tree.lock
    {
        LockSpec::Absent => "lock-absent",
        LockSpec::Valid(_) => "lock-valid",
        LockSpec::Raw(_) => "lock-corrupt",
    });
    o.class(match case.tree.cfg.use_cache
    {
        None => "cache-omitted",
        Some(true) => "cache-on",
        Some(false) => "cache-off",
    });
    o.class(match case.plan
    {
        CheckPlan::None => "plan-none",
        CheckPlan::Sig { .. } => "plan-signal",
        CheckPlan::Fail { .. } => "plan-io-failure",
    });
    let has_missing = rendered.iter().any(|(_, r)| r.stmts.iter().any(|s| matches!(s.expect, Expect::Missing { .. })));
    o.nontrivial = has_missing || case.breakage != Breakage::None || case.plan != CheckPlan::None || case.tree.cfg.use_cache != Some(true);
    let _ = hash_of(&0);
    o.sample = Some(json!({"breakage": format!("{:?}", case.breakage), "lock": format!("{:?}", case.tree.lock), "plan": format!("{:?}", case.plan),
        "use_cache": case.tree.cfg.use_cache, "structured": case.tree.cfg.structured, "files": rendered.iter().map(|r| r.0.clone()).collect::<Vec<_>>(),
        "traced_calls": rec.trace.len(), "exit": rec.exit.describe()}));
    o
}

pub fn run(env: &Env, rec: &Recorder) -> (String, Vec<&'static str>)
{
    pbt(env, rec, "check-mode", env.cases(2500, 40_000), &strategy, &check);
    (
        "modelled trees (1-4 files, decoys, directives) x configuration (macros, structured on/off/omitted, use_cache on/off/omitted, extensions) x lock (absent, valid, corrupt, empty, negative) x breakage (none, no files in scope, missing source dir, source dir is a file, source dir is an in-scope source file, invalid YAML, missing config; always inside an ordinary project with Cargo.toml and .gitignore) x extra entries (non-source files, symlinks to file and directory, empty dir, stale scratch files of different ages in TMPDIR and in the project, file outside the project, TMPDIR pointing at a directory that does not exist) x fault plan (none, SIGTERM/SIGINT at a generated operation, injected read-side I/O failure) x standard output (captured; one case in three also with /dev/full, a pipe without reader, or a closed descriptor - the run may then die, but not modify anything); 20 % of trees pre-edited so nothing is missing; 4 % of trees with an extra file of 255-4097 statements lacking references. Oracle: (1) snapshot of the whole sandbox (project, TMPDIR, cwd, outside) identical incl. mtime and inode; (2) the libc-level trace contains no mutating call on any path; (3) for a 4 % sample the same run under strace -f shows no mutating file system call either (validates the interposer's view). Non-trivial = distinct case with a missing reference, a non-default configuration point, a broken configuration or a fault plan".to_string(),
        vec!["the interposer sees libc-level calls of the dynamically linked build; a raw syscall() would bypass it (std and async-std use the libc wrappers)"],
    )
}
