//! C02: an ID once assigned is never assigned again (history invariant).
//! Model-based: histories of developer edits and Breadlog runs (with injected
//! failures, stop signals and kills) interpreted against the real tool and a
//! ghost map ID -> statement identity.

use crate::engine::{hash_of, idx16, pbt_opts, CaseOutcome, Env, Recorder};
use crate::gen::{parse_lock, ConfigSpec};
use crate::props::fault_common::applicable_errnos;
use crate::sandbox::*;
use proptest::collection::vec;
use proptest::prelude::*;
use serde::{Deserialize, Serialize};
use serde_json::json;
use std::collections::BTreeMap;

#[derive(Clone, Debug, PartialEq, Eq, Hash, Serialize, Deserialize)]
pub enum Plan
{
    None,
    Fail
    {
        pos: u16,
        errno: u8,
    },
    Fail2
    {
        pos1: u16,
        pos2: u16,
        errno: u8,
    },
    Sig
    {
        pos: u16,
        int: bool,
    },
    Kill
    {
        pos: u16,
    },
    /// TMPDIR really on another filesystem: every rename fails with EXDEV
    CrossFs,
    /// an I/O failure and, later in the same run, a stop signal or a kill
    FailThen
    {
        pos1: u16,
        errno: u8,
        pos2: u16,
        kill: bool,
    },
}

#[derive(Clone, Debug, PartialEq, Eq, Hash, Serialize, Deserialize)]
pub enum HistOp
{
    AddStmt
    {
        file: u16,
        line: u16,
    },
    /// delete a statement; `highest` = the one carrying the highest ID
    DelStmt
    {
        which: u16,
        highest: bool,
    },
    AddFile
    {
        stmts: u8,
    },
    DelFile
    {
        which: u16,
    },
    /// cut a statement (with its ID, if any) and paste it into another file: IDs stay unique
    MoveStmt
    {
        which: u16,
        to_file: u16,
    },
    RunCheck,
    RunEdit(Plan),
    /// edit run with the plan AND TMPDIR really on another filesystem
    RunEditCrossFs(Plan),
    /// the developer saves the configuration file again (same content, newer timestamp)
    TouchConfig,
}

#[derive(Clone, Debug, PartialEq, Eq, Hash, Serialize, Deserialize)]
pub struct History
{
    pub structured: bool,
    pub initial_files: Vec<u8>, // number of statements per initial file
    pub ops: Vec<HistOp>,
    /// a lock file that exists before the first run (consistent: the tree has no IDs yet)
    #[serde(default)]
    pub initial_lock: Option<u32>,
}

fn plan() -> BoxedStrategy<Plan>
{
    prop_oneof![
        5 => Just(Plan::None),
        2 => (any::<u16>(), any::<u8>()).prop_map(|(pos, errno)| Plan::Fail { pos, errno }),
        1 => (any::<u16>(), any::<u16>(), any::<u8>()).prop_map(|(pos1, pos2, errno)| Plan::Fail2 { pos1, pos2, errno }),
        2 => (any::<u16>(), any::<bool>()).prop_map(|(pos, int)| Plan::Sig { pos, int }),
        2 => any::<u16>().prop_map(|pos| Plan::Kill { pos }),
        1 => Just(Plan::CrossFs),
        2 => (any::<u16>(), any::<u8>(), any::<u16>(), any::<bool>()).prop_map(|(pos1, errno, pos2, kill)| Plan::FailThen { pos1, errno, pos2, kill }),
    ]
    .boxed()
}

fn hist_op() -> BoxedStrategy<HistOp>
{
    prop_oneof![
        5 => (any::<u16>(), any::<u16>()).prop_map(|(file, line)| HistOp::AddStmt { file, line }),
        3 => (any::<u16>(), prop_oneof![Just(true), Just(false)]).prop_map(|(which, highest)| HistOp::DelStmt { which, highest }),
        1 => (1u8..4).prop_map(|stmts| HistOp::AddFile { stmts }),
        1 => any::<u16>().prop_map(|which| HistOp::DelFile { which }),
        2 => (any::<u16>(), any::<u16>()).prop_map(|(which, to_file)| HistOp::MoveStmt { which, to_file }),
        1 => Just(HistOp::RunCheck),
        6 => plan().prop_map(HistOp::RunEdit),
        1 => plan().prop_map(HistOp::RunEditCrossFs),
        1 => Just(HistOp::TouchConfig),
    ]
    .boxed()
}

pub fn strategy() -> BoxedStrategy<History>
{
    (
        any::<bool>(),
        vec(0u8..4, 1..=4),
        vec(hist_op(), 4..=25),
        prop_oneof![
            6 => Just(None),
            1 => Just(Some(1u32)),
            1 => (2u32..5000).prop_map(Some),
            1 => (0u32..12).prop_map(|j| Some(u32::MAX - j)),
            1 => proptest::sample::select(&[255u32, 256, 65535, 65536, 999_999_999, 2_147_483_647][..]).prop_map(Some),
        ],
    )
        .prop_map(|(structured, initial_files, ops, initial_lock)| History {
            structured,
            initial_files,
            ops,
            initial_lock,
        })
        .boxed()
}

struct World
{
    sb: Sandbox,
    next_uid: u32,
    next_file: u32,
}

impl World
{
    fn src(&self) -> std::path::PathBuf
    {
        self.sb.proj().join("src")
    }
    fn stmt_line(&mut self) -> String
    {
        let u = self.next_uid;
        self.next_uid += 1;
        format!("    warn!(\"u{} needs a reference {{}}\", {});", u, u % 7)
    }
    fn files(&self) -> Vec<std::path::PathBuf>
    {
        let mut v: Vec<_> = std::fs::read_dir(self.src())
            .map(|rd| rd.filter_map(|e| e.ok().map(|e| e.path())).filter(|p| p.extension().map(|e| e == "rs").unwrap_or(false)).collect())
            .unwrap_or_default();
        v.sort();
        v
    }
    fn new_file(&mut self, stmts: u8)
    {
        let name = format!("f{}.rs", self.next_file);
        self.next_file += 1;
        let mut t = String::from("fn generated() {\n    let x = 1;\n");
        for _ in 0..stmts
        {
            t.push_str(&self.stmt_line());
            t.push('\n');
        }
        t.push_str("}\n");
        std::fs::write(self.src().join(name), t).unwrap();
    }
}

/// The harness's own scanner: (file, line index, uid, id) of every statement line.
fn scan(w: &World) -> Vec<(std::path::PathBuf, usize, u32, Option<u128>)>
{
    let mut out = Vec::new();
    for f in w.files()
    {
        let text = match std::fs::read(&f)
        {
            Ok(b) => String::from_utf8_lossy(&b).to_string(),
            Err(_) => continue,
        };
        for (li, line) in text.lines().enumerate()
        {
            let p = match line.find("warn!(")
            {
                Some(p) => p,
                None => continue,
            };
            let rest = &line[p..];
            // uid: "u<digits> needs"
            let uid = rest.find(" needs a reference").and_then(|e| {
                let head = &rest[..e];
                let s = head.rfind('u')?;
                head[s + 1..].parse::<u32>().ok()
            });
            let uid = match uid
            {
                Some(u) => u,
                None => continue,
            };
            let mut id = None;
            for pat in ["[ref: ", "ref = "]
            {
                if let Some(q) = rest.find(pat)
                {
                    let digits: String = rest[q + pat.len()..].chars().take_while(|c| c.is_ascii_digit()).collect();
                    if !digits.is_empty()
                    {
                        id = digits.parse::<u128>().ok();
                    }
                }
            }
            out.push((f.clone(), li, uid, id));
        }
    }
    out
}

fn copy_dir(from: &std::path::Path, to: &std::path::Path)
{
    let _ = std::fs::create_dir_all(to);
    if let Ok(rd) = std::fs::read_dir(from)
    {
        for e in rd.filter_map(|e| e.ok())
        {
            let p = e.path();
            let t = to.join(e.file_name());
            if p.is_dir()
            {
                copy_dir(&p, &t);
            }
            else
            {
                let _ = std::fs::copy(&p, &t);
            }
        }
    }
}

fn run_in(sb: &Sandbox, check: bool, plan: Option<String>) -> RunResult
{
    run_in_tmp(sb, check, plan, None)
}

fn run_in_tmp(sb: &Sandbox, check: bool, plan: Option<String>, tmpdir: Option<std::path::PathBuf>) -> RunResult
{
    run_breadlog(&RunSpec {
        check,
        cwd: sb.proj(),
        config_arg: "Breadlog.yaml".into(),
        tmpdir: tmpdir.unwrap_or_else(|| sb.tmp()),
        plan,
        trace: true,
        roots: vec![sb.root.clone()],
        timeout: std::time::Duration::from_secs(120),
    })
}

pub fn check(h: &History) -> CaseOutcome
{
    let mut o = CaseOutcome::default();
    // the configuration path is spelled `Breadlog.yaml`, `./Breadlog.yaml` or absolute, fixed per history
    let _cfg_form = crate::sandbox::ConfigFormGuard::new((crate::engine::hash_of(h) % 3) as u8);
    let sb = Sandbox::new();
    let cfg = ConfigSpec::simple(h.structured, if h.initial_files.len() % 2 == 0 { Some(true) } else { None });
    std::fs::write(sb.proj().join("Breadlog.yaml"), cfg.yaml()).unwrap();
    std::fs::create_dir_all(sb.proj().join("src")).unwrap();
    if let Some(v) = h.initial_lock
    {
        std::fs::write(sb.proj().join("Breadlog.lock"), crate::gen::LockSpec::Valid(v).content().unwrap()).unwrap();
    }
    let mut w = World {
        sb,
        next_uid: 1,
        next_file: 0,
    };
    for n in &h.initial_files
    {
        w.new_file(*n);
    }
    // ghost map: id -> uid
    let mut ghost: BTreeMap<u128, u32> = BTreeMap::new();
    let mut log: Vec<String> = Vec::new();
    let mut touches: i64 = 0;
    let mut armed = false; // a faulted edit that inserted, or deletion of the current maximum, happened
    let mut nontrivial = false;
    let mut observe = |w: &World, ghost: &mut BTreeMap<u128, u32>, o: &mut CaseOutcome, log: &Vec<String>, step: usize| -> usize {
        let mut newly = 0;
        for (f, li, uid, id) in scan(w)
        {
            if let Some(id) = id
            {
                match ghost.get(&id)
                {
                    Some(u) if *u != uid =>
                    {
                        o.fail(
                            "id-reused",
                            format!(
                                "step {}: ID {} was written for statement u{} earlier and is now carried by statement u{} ({}:{})\nhistory so far:\n  {}",
                                step,
                                id,
                                u,
                                uid,
                                f.file_name().unwrap().to_string_lossy(),
                                li + 1,
                                log.join("\n  ")
                            ),
                        );
                    },
                    Some(_) => (),
                    None =>
                    {
                        ghost.insert(id, uid);
                        newly += 1;
                    },
                }
            }
        }
        newly
    };
    for (step, op) in h.ops.iter().enumerate()
    {
        if !o.deviations.is_empty()
        {
            break;
        }
        match op
        {
            HistOp::AddStmt { file, line } =>
            {
                let files = w.files();
                if files.is_empty()
                {
                    w.new_file(1);
                    log.push(format!("{}: add file with 1 statement", step));
                    continue;
                }
                let f = &files[idx16(*file, files.len())];
                let text = std::fs::read_to_string(f).unwrap_or_default();
                let mut lines: Vec<String> = text.lines().map(|s| s.to_string()).collect();
                // keep inside the fn body: between line 1 and the last line
                let at = 1 + idx16(*line, lines.len().saturating_sub(1).max(1));
                let l = w.stmt_line();
                lines.insert(at.min(lines.len().saturating_sub(1)).max(1), l);
                std::fs::write(f, lines.join("\n") + "\n").unwrap();
                log.push(format!("{}: add statement u{} to {}", step, w.next_uid - 1, f.file_name().unwrap().to_string_lossy()));
            },
            HistOp::DelStmt { which, highest } =>
            {
                let sc = scan(&w);
                if sc.is_empty()
                {
                    continue;
                }
                let cur_max = sc.iter().filter_map(|s| s.3).max();
                let victim = if *highest && cur_max.is_some()
                {
                    sc.iter().find(|s| s.3 == cur_max).unwrap().clone()
                }
                else
                {
                    sc[idx16(*which, sc.len())].clone()
                };
                let text = std::fs::read_to_string(&victim.0).unwrap_or_default();
                let lines: Vec<&str> = text.lines().enumerate().filter(|(i, _)| *i != victim.1).map(|(_, l)| l).collect();
                std::fs::write(&victim.0, lines.join("\n") + "\n").unwrap();
                if victim.3.is_some() && victim.3 == cur_max
                {
                    armed = true;
                    o.class("deleted-highest-id-statement");
                }
                log.push(format!("{}: delete statement u{} (id {:?})", step, victim.2, victim.3));
            },
            HistOp::AddFile { stmts } =>
            {
                w.new_file(*stmts);
                log.push(format!("{}: add file f{}.rs with {} statements", step, w.next_file - 1, stmts));
            },
            HistOp::DelFile { which } =>
            {
                let files = w.files();
                if files.len() <= 1
                {
                    continue;
                }
                let f = &files[idx16(*which, files.len())];
                let sc = scan(&w);
                let cur_max = sc.iter().filter_map(|s| s.3).max();
                if cur_max.is_some() && sc.iter().any(|s| &s.0 == f && s.3 == cur_max)
                {
                    armed = true;
                    o.class("deleted-highest-id-statement");
                }
                let _ = std::fs::remove_file(f);
                log.push(format!("{}: delete file {}", step, f.file_name().unwrap().to_string_lossy()));
            },
            HistOp::MoveStmt { which, to_file } =>
            {
                let sc = scan(&w);
                let files = w.files();
                if sc.is_empty() || files.len() < 2
                {
                    continue;
                }
                let victim = sc[idx16(*which, sc.len())].clone();
                let dest = files[idx16(*to_file, files.len())].clone();
                if dest == victim.0
                {
                    continue;
                }
                let text = std::fs::read_to_string(&victim.0).unwrap_or_default();
                let mut moved = String::new();
                let kept: Vec<&str> = text
                    .lines()
                    .enumerate()
                    .filter(|(i, l)| {
                        if *i == victim.1
                        {
                            moved = l.to_string();
                            false
                        }
                        else
                        {
                            true
                        }
                    })
                    .map(|(_, l)| l)
                    .collect();
                std::fs::write(&victim.0, kept.join("\n") + "\n").unwrap();
                let dtext = std::fs::read_to_string(&dest).unwrap_or_default();
                let mut dl: Vec<String> = dtext.lines().map(|s| s.to_string()).collect();
                let at = dl.len().saturating_sub(1).max(1).min(dl.len());
                dl.insert(at, moved);
                std::fs::write(&dest, dl.join("\n") + "\n").unwrap();
                o.class("moved-statement-between-files");
                log.push(format!("{}: move statement u{} (id {:?}) to {}", step, victim.2, victim.3, dest.file_name().unwrap().to_string_lossy()));
            },
            HistOp::RunCheck =>
            {
                let before = snapshot(&w.sb.proj());
                let r = run_in(&w.sb, true, None);
                o.evals += 1;
                let after = snapshot(&w.sb.proj());
                let diff = snapshot_diff(&before, &after, false, &|_| false);
                if !diff.is_empty()
                {
                    o.fail("check-modified-tree", format!("step {}: --check changed the project: {:?}", step, diff));
                }
                log.push(format!("{}: run --check -> {}", step, r.exit.describe()));
            },
            HistOp::TouchConfig =>
            {
                touches += 1;
                let cpath = w.sb.proj().join("Breadlog.yaml");
                if let Ok(md) = std::fs::metadata(&cpath)
                {
                    use std::os::unix::fs::MetadataExt;
                    let t = libc::timespec {
                        tv_sec: md.mtime() + 100 * touches,
                        tv_nsec: 0,
                    };
                    let times = [t, t];
                    let c = std::ffi::CString::new(cpath.to_string_lossy().as_bytes()).unwrap();
                    unsafe {
                        libc::utimensat(libc::AT_FDCWD, c.as_ptr(), times.as_ptr(), 0);
                    }
                }
                o.class("config-file-touched");
                log.push(format!("{}: developer saves Breadlog.yaml again (timestamp +{} s)", step, 100 * touches));
            },
            HistOp::RunEdit(p) | HistOp::RunEditCrossFs(p) =>
            {
                let force_cross = matches!(op, HistOp::RunEditCrossFs(_));
                // map the plan onto the op count of a recording run on a copy
                let plan_str = match p
                {
                    Plan::None | Plan::CrossFs => None,
                    _ =>
                    {
                        let rec_sb = Sandbox::new();
                        let _ = std::fs::remove_dir_all(rec_sb.proj());
                        copy_dir(&w.sb.proj(), &rec_sb.proj());
                        let rr = run_in(&rec_sb, false, None);
                        o.evals += 1;
                        let ops: Vec<&TraceOp> = rr.trace.iter().filter(|t| t.k > 0).collect();
                        if ops.is_empty()
                        {
                            None
                        }
                        else
                        {
                            let pick = |pos: u16| ops[idx16(pos, ops.len())];
                            Some(match p
                            {
                                Plan::Fail { pos, errno } =>
                                {
                                    let t = pick(*pos);
                                    let e = applicable_errnos(&t.kind, t.flags);
                                    format!("fail:{}:{}", t.k, e[*errno as usize % e.len()])
                                },
                                Plan::Fail2 { pos1, pos2, errno } =>
                                {
                                    let (a, b) = (pick(*pos1), pick(*pos2));
                                    let ea = applicable_errnos(&a.kind, a.flags);
                                    let eb = applicable_errnos(&b.kind, b.flags);
                                    format!("fail:{}:{};fail:{}:{}", a.k, ea[*errno as usize % ea.len()], b.k, eb[*errno as usize % eb.len()])
                                },
                                Plan::Sig { pos, int } => format!("sig:{}:{}", pick(*pos).k, if *int { 2 } else { 15 }),
                                Plan::Kill { pos } => format!("kill:{}", pick(*pos).k),
                                Plan::FailThen { pos1, errno, pos2, kill } =>
                                {
                                    let a = pick(*pos1);
                                    let ea = applicable_errnos(&a.kind, a.flags);
                                    // the second event comes strictly later
                                    let later: Vec<&&TraceOp> = ops.iter().filter(|t| t.k > a.k).collect();
                                    let b = if later.is_empty() { a.k + 1 } else { later[idx16(*pos2, later.len())].k };
                                    if *kill
                                    {
                                        format!("fail:{}:{};kill:{}", a.k, ea[*errno as usize % ea.len()], b)
                                    }
                                    else
                                    {
                                        format!("fail:{}:{};sig:{}:{}", a.k, ea[*errno as usize % ea.len()], b, if *errno % 2 == 0 { 15 } else { 2 })
                                    }
                                },
                                Plan::None | Plan::CrossFs => unreachable!(),
                            })
                        }
                    },
                };
                let cross = if matches!(p, Plan::CrossFs) || force_cross
                {
                    let base = build_dir().join("work");
                    let _ = std::fs::create_dir_all(&base);
                    Some(Sandbox::new_in(&base))
                }
                else
                {
                    None
                };
                let raw_plan = plan_str.clone();
                let r = run_in_tmp(&w.sb, false, raw_plan.clone(), cross.as_ref().map(|c| c.root.clone()));
                let plan_str = if cross.is_some()
                {
                    Some(format!("{} with TMPDIR on another filesystem", plan_str.clone().unwrap_or_else(|| "no fault".into())))
                }
                else
                {
                    plan_str
                };

                o.evals += 1;
                if r.exit == Exit::Timeout
                {
                    o.inconclusive = Some("edit run ran into the watchdog".into());
                    break;
                }
                log.push(format!("{}: run edit {} -> {}", step, plan_str.clone().unwrap_or_else(|| "(no fault)".into()), r.exit.describe()));
                o.class(match p
                {
                    Plan::None => "edit-no-fault",
                    Plan::Fail { .. } | Plan::Fail2 { .. } => "edit-io-failure",
                    Plan::Sig { .. } => "edit-stop-signal",
                    Plan::Kill { .. } => "edit-killed",
                    Plan::CrossFs => "edit-cross-filesystem-tmpdir",
                    Plan::FailThen { .. } => "edit-io-failure-then-signal-or-kill",
                });
                let newly = observe(&w, &mut ghost, &mut o, &log, step);
                if newly > 0 && armed
                {
                    nontrivial = true;
                }
                if newly > 0 && !matches!(p, Plan::None) && !r.exit.success()
                {
                    armed = true;
                    o.class("faulted-edit-that-inserted");
                }
                // lock invariant: when the lock parses, it is ahead of every ID ever written
                let lock = std::fs::read(w.sb.proj().join("Breadlog.lock")).ok().map(|b| String::from_utf8_lossy(&b).to_string());
                if let Some(maxg) = ghost.keys().max()
                {
                    match lock.as_deref().map(parse_lock)
                    {
                        Some(Some(v)) =>
                        {
                            if (v as u128) <= *maxg
                            {
                                o.fail(
                                    "lock-behind-written-ids",
                                    format!(
                                        "step {}: after the edit run ({}; {}) the lock says next_reference_id: {} but ID {} has been written\nhistory so far:\n  {}",
                                        step,
                                        plan_str.clone().unwrap_or_else(|| "no fault".into()),
                                        r.exit.describe(),
                                        v,
                                        maxg,
                                        log.join("\n  ")
                                    ),
                                );
                            }
                        },
                        // IDs have been written (now or earlier): the lock must exist and be readable
                        Some(None) =>
                        {
                            o.class("lock-unparsable-after-run");
                            o.fail(
                                "lock-unreadable-after-ids-written",
                                format!(
                                    "step {}: after the edit run ({}; {}) Breadlog.lock does not parse ({:?}) although ID {} has been written\nhistory so far:\n  {}",
                                    step,
                                    plan_str.clone().unwrap_or_else(|| "no fault".into()),
                                    r.exit.describe(),
                                    lock.as_deref().map(|l| crate::engine::truncate(l, 80)),
                                    maxg,
                                    log.join("\n  ")
                                ),
                            );
                        },
                        None =>
                        {
                            o.class("lock-absent-after-run");
                            o.fail(
                                "lock-absent-after-ids-written",
                                format!(
                                    "step {}: after the edit run ({}; {}) there is no Breadlog.lock although ID {} has been written\nhistory so far:\n  {}",
                                    step,
                                    plan_str.clone().unwrap_or_else(|| "no fault".into()),
                                    r.exit.describe(),
                                    maxg,
                                    log.join("\n  ")
                                ),
                            );
                        },
                    }
                }
            },
        }
    }
    o.nontrivial = nontrivial;
    o.class(if h.structured { "structured" } else { "unstructured" });
    let _ = hash_of(&0);
    o.sample = Some(json!({"structured": h.structured, "history": log, "ids_ever_written": ghost.len()}));
    o
}

pub fn run(env: &Env, rec: &Recorder) -> (String, Vec<&'static str>)
{
    pbt_opts(env, rec, "histories", env.cases(1500, 30000), 300, &strategy, &check);
    (
        "histories of 4-25 operations over a project of 1-4+ files with the lock in use (absent at first, or pre-existing with a small, digit-boundary or near-u32::MAX value) and never touched by the developer: add statement / delete statement (biased to the highest ID) / move a statement with its ID to another file / add file / delete file / save the configuration file again (newer timestamp) / --check / edit run carrying a fault plan (none 50 %, one or two injected I/O failures, SIGTERM/SIGINT, SIGKILL, an I/O failure followed later in the same run by a stop signal or a kill, or TMPDIR really on another filesystem, also combined with a fault plan; positioned by a fraction mapped onto the operation count of a recording run on a copy). Ghost map ID -> statement identity (unique marker in each message); after every run the harness's own scanner reads the tree: an ID seen with a different statement than before is a reuse; after every edit run, however it ended, a parsable lock must be ahead of every ID ever written; --check must change nothing. Non-trivial = distinct history where a faulted/interrupted edit that inserted IDs, or the deletion of the statement with the highest ID, is followed by a later edit that inserts IDs".to_string(),
        vec!["developer copy/paste of a statement together with its ID is not generated (duplicates not caused by the tool)", "the developer never edits or deletes Breadlog.lock", "once any ID has been written the lock file must exist, parse and be ahead of every ID ever written (the tool itself creates it before it modifies the first file)"],
    )
}
