//! Coverage-guided half of C17 (and extra depth for C03/C05): libFuzzer targets
//! fz_parse and fz_edit built by cargo-fuzz from /repo's working tree, driven
//! from here with a generated seed corpus; crashes become replay files.

use crate::engine::{CaseOutcome, Env, Recorder};
use crate::gen::*;
use crate::gen_raw::{corpus, TEXTS};
use crate::sandbox::{build_dir, scratch_base};
use proptest::prelude::*;
use serde::{Deserialize, Serialize};
use serde_json::json;
use std::path::{Path, PathBuf};

#[derive(Clone, Debug, PartialEq, Eq, Hash, Serialize, Deserialize)]
pub struct FuzzInput
{
    pub target: String,
    #[serde(with = "crate::sandbox::bytes_as_text")]
    pub bytes: Vec<u8>,
}

fn target_bin(t: &str) -> PathBuf
{
    build_dir().join("fuzz/x86_64-unknown-linux-gnu/release").join(t)
}

fn run_one_input(inp: &FuzzInput) -> CaseOutcome
{
    let mut o = CaseOutcome::default();
    o.evals = 1;
    let dir = scratch_base().join(format!("blverif-fzr.{}.{}", std::process::id(), crate::engine::hash_of(&inp.bytes)));
    let _ = std::fs::create_dir_all(&dir);
    let f = dir.join("input");
    std::fs::write(&f, &inp.bytes).unwrap();
    let out = std::process::Command::new(target_bin(&inp.target))
        .arg(&f)
        .arg("-timeout=120")
        .env("FZ_SCRATCH", &dir)
        .current_dir(&dir)
        .output();
    match out
    {
        Err(e) => o.inconclusive = Some(format!("cannot run fuzz target {}: {}", inp.target, e)),
        Ok(out) =>
        {
            let err = String::from_utf8_lossy(&out.stderr).to_string();
            if !out.status.success()
            {
                if err.contains("ALARM") || err.contains("timeout")
                {
                    o.inconclusive = Some(format!("{}: input exceeded the time limit", inp.target));
                }
                else
                {
                    let lines: Vec<&str> = err.lines().filter(|l| l.contains("panicked") || l.contains("ERROR") || l.contains("assert") || l.contains("SUMMARY")).take(6).collect();
                    o.fail(
                        &format!("fuzz-crash:{}", inp.target),
                        format!("{} fails on a {}-byte input:\n{}\ninput (lossy): {:?}", inp.target, inp.bytes.len(), lines.join("\n"), crate::engine::truncate(&String::from_utf8_lossy(&inp.bytes), 400)),
                    );
                }
            }
        },
    }
    let _ = std::fs::remove_dir_all(&dir);
    o.nontrivial = true;
    o
}

fn seed_corpus(env: &Env, dir: &Path)
{
    let _ = std::fs::create_dir_all(dir);
    let mut n = 0;
    let mut put = |sel: u8, body: &[u8]| {
        let mut v = vec![sel];
        v.extend_from_slice(&body[..body.len().min(4000)]);
        let _ = std::fs::write(dir.join(format!("seed-{:04}", n)), v);
        n += 1;
    };
    for (i, t) in TEXTS.iter().enumerate()
    {
        put((i % 8) as u8, t.as_bytes());
    }
    // rendered model files under the fuzz targets' first macro set
    let cfg = ConfigSpec::simple(false, Some(false));
    let p = StmtParams {
        p_preamble: 25,
        n_macros: 3,
        ..StmtParams::default()
    };
    let strat = file_spec(&cfg, &p, 6, true);
    for i in 0..150u64
    {
        let f = crate::engine::draw(env, "fuzz-seed", i, &strat);
        let r = render_file(&f, &cfg);
        put((i % 2) as u8, r.text.as_bytes());
    }
    let c = corpus();
    for i in 0..60usize
    {
        if c.is_empty()
        {
            break;
        }
        let (_, b) = &c[(i * 7919) % c.len()];
        let start = (i * 997) % b.len().max(1);
        let s = String::from_utf8_lossy(&b[start.min(b.len())..]).to_string();
        put((i % 2) as u8, s.as_bytes());
    }
    // saved regression inputs
    if let Ok(rd) = std::fs::read_dir(env.verif_dir.join("replays/C17"))
    {
        for e in rd.filter_map(|e| e.ok())
        {
            if let Ok(t) = std::fs::read_to_string(e.path())
            {
                if let Ok(v) = serde_json::from_str::<serde_json::Value>(&t)
                {
                    if v["part"] == "fuzz"
                    {
                        if let Ok(inp) = serde_json::from_value::<FuzzInput>(v["case"].clone())
                        {
                            let _ = std::fs::write(dir.join(format!("regression-{:04}", n)), inp.bytes);
                            n += 1;
                        }
                    }
                }
            }
        }
    }
}

struct Campaign
{
    target: &'static str,
    runs: u64,
    jobs: usize,
}

pub fn run(env: &Env, rec: &Recorder)
{
    // replay entry
    crate::engine::enumerate(env, rec, "fuzz", Vec::<FuzzInput>::new(), &run_one_input);
    if env.replay.is_some()
    {
        return;
    }
    for t in ["fz_parse", "fz_edit"]
    {
        if !target_bin(t).exists()
        {
            rec.harness_error(format!("fuzz target {} is not built (cargo +nightly fuzz build, see build.sh)", t));
            return;
        }
    }
    let base = scratch_base().join(format!("blverif-fz.{}", std::process::id()));
    let _ = std::fs::remove_dir_all(&base);
    let camps = [
        Campaign {
            target: "fz_parse",
            runs: env.cases(300_000, 40_000_000),
            jobs: env.tier.pick(2, 8),
        },
        Campaign {
            target: "fz_edit",
            runs: env.cases(4_000, 1_600_000),
            jobs: env.tier.pick(4, 8),
        },
    ];
    let mut handles = Vec::new();
    for c in &camps
    {
        for j in 0..c.jobs
        {
            let cdir = base.join(format!("{}-corpus-{}", c.target, j));
            seed_corpus(env, &cdir);
            let adir = base.join(format!("{}-artifacts-{}", c.target, j));
            let _ = std::fs::create_dir_all(&adir);
            let initial = std::fs::read_dir(&cdir).map(|r| r.count()).unwrap_or(0);
            let runs = c.runs / c.jobs as u64;
            let seed = (env.seed.wrapping_mul(2654435761).wrapping_add(j as u64 * 7 + 1) % 4_000_000_000).max(1);
            let child = std::process::Command::new(target_bin(c.target))
                .arg(&cdir)
                .arg(format!("-runs={}", runs))
                .arg(format!("-seed={}", seed))
                .arg("-max_len=4096")
                .arg("-len_control=0")
                .arg("-timeout=120")
                .arg("-rss_limit_mb=4096")
                .arg(format!("-max_total_time={}", env.tier.pick(60, 900)))
                .arg(format!("-dict={}", env.verif_dir.join("fuzz/dict.txt").display()))
                .arg(format!("-artifact_prefix={}/", adir.display()))
                .arg("-print_final_stats=1")
                .env("FZ_SCRATCH", &base)
                .current_dir(&base)
                .stdout(std::process::Stdio::null())
                .stderr(std::process::Stdio::piped())
                .spawn();
            match child
            {
                Ok(ch) => handles.push((c.target, j, ch, cdir, adir, initial, runs)),
                Err(e) => rec.harness_error(format!("cannot start {}: {}", c.target, e)),
            }
        }
    }
    let mut summary = Vec::new();
    for (target, j, ch, cdir, adir, initial, runs) in handles
    {
        let out = ch.wait_with_output();
        let err = out.as_ref().map(|o| String::from_utf8_lossy(&o.stderr).to_string()).unwrap_or_default();
        let stat = |name: &str| -> u64 {
            err.lines()
                .filter_map(|l| l.strip_prefix(name))
                .filter_map(|v| v.trim().parse::<u64>().ok())
                .last()
                .unwrap_or(0)
        };
        let executed = stat("stat::number_of_executed_units:");
        let new_units = stat("stat::new_units_added:");
        let final_corpus = std::fs::read_dir(&cdir).map(|r| r.count()).unwrap_or(0);
        let cov = err
            .lines()
            .rev()
            .find(|l| l.contains(" cov: "))
            .and_then(|l| l.split(" cov: ").nth(1))
            .and_then(|r| r.split_whitespace().next())
            .and_then(|v| v.parse::<u64>().ok())
            .unwrap_or(0);
        rec.add_evals(executed);
        rec.class(&format!("fuzz-executions-{}", target), executed);
        rec.class(&format!("fuzz-inputs-that-added-coverage-{}", target), new_units);
        // distinct non-trivial = inputs that added coverage (hash of corpus files beyond the seeds)
        if let Ok(rd) = std::fs::read_dir(&cdir)
        {
            let mut hs = Vec::new();
            for e in rd.filter_map(|e| e.ok())
            {
                let name = e.file_name().to_string_lossy().to_string();
                if !name.starts_with("seed-") && !name.starts_with("regression-")
                {
                    if let Ok(b) = std::fs::read(e.path())
                    {
                        hs.push(crate::engine::hash_of(&(target, b)));
                    }
                }
            }
            rec.add_nontrivial_many(hs);
        }
        summary.push(json!({"target": target, "job": j, "runs_requested": runs, "executed": executed, "seed_corpus": initial, "final_corpus": final_corpus, "new_units": new_units, "edge_coverage": cov}));
        // artifacts
        if let Ok(rd) = std::fs::read_dir(&adir)
        {
            for e in rd.filter_map(|e| e.ok())
            {
                let name = e.file_name().to_string_lossy().to_string();
                let bytes = std::fs::read(e.path()).unwrap_or_default();
                if name.starts_with("crash-")
                {
                    let inp = FuzzInput {
                        target: target.to_string(),
                        bytes,
                    };
                    // re-run through the recording machinery: saves a replay file and reports
                    crate::engine::enumerate(env, rec, "fuzz", vec![inp], &run_one_input);
                }
                else if name.starts_with("timeout-") || name.starts_with("oom-") || name.starts_with("slow-unit-")
                {
                    if !name.starts_with("slow-unit-")
                    {
                        let keep = env.verif_dir.join("replays/C17").join(format!("found-hang-suspect-{}-{}", target, name));
                        let _ = std::fs::create_dir_all(keep.parent().unwrap());
                        let _ = std::fs::write(&keep, &bytes);
                        rec.inconclusive(format!("{}: libFuzzer reported {} (hang/oom suspect, saved as {}); not a violation", target, name, keep.display()));
                    }
                }
            }
        }
        if let Ok(o) = &out
        {
            if !o.status.success() && std::fs::read_dir(&adir).map(|r| r.count()).unwrap_or(0) == 0
            {
                rec.harness_error(format!("{} exited with {:?} without an artifact:\n{}", target, o.status.code(), crate::engine::truncate(&err[err.len().saturating_sub(600)..], 600)));
            }
        }
    }
    rec.extra("fuzz_campaigns", json!(summary));
    let _ = std::fs::remove_dir_all(&base);
    let _ = any::<bool>();
}
