//! C03, C05, C06 and the CLI half of C17: properties over arbitrary file
//! contents, decided through the executable with the differential /
//! round-trip oracles.

use crate::engine::{dev, hash_of, pbt, CaseOutcome, Env, Recorder};
use crate::gen::*;
use crate::gen_raw::*;
use crate::oracle::{decompose, Insertion, TokKind};
use crate::props::common::*;
use crate::sandbox::{materialise, read_files, simple_run, Node, Sandbox, Tree};
use proptest::prelude::*;
use serde::{Deserialize, Serialize};
use serde_json::json;
use std::collections::BTreeMap;

#[derive(Clone, Copy, PartialEq, Eq, Debug)]
pub enum Which
{
    C03,
    C05,
    C06,
    C17,
}

#[derive(Clone, Debug, PartialEq, Eq, Hash, Serialize, Deserialize)]
pub struct RawCase
{
    pub tree: RawTree,
    /// run an edit first and take its result as the tree under test (gives trees with nothing missing)
    pub pre_edit: bool,
}

fn is_utf8(b: &[u8]) -> bool
{
    std::str::from_utf8(b).is_ok()
}

/// Insertion offsets the parser (through the hook) predicts for `content`.
fn hook_missing(content: &[u8], cfg: &ConfigSpec) -> Option<Vec<usize>>
{
    let text = std::str::from_utf8(content).ok()?;
    // a panic inside the parser is judged through the executable (C17), not here
    let entries = crate::hook::find(text, cfg.is_structured(), &cfg.macro_pairs()).ok()?;
    Some(entries.iter().filter(|e| e.reference.is_none() && e.usable).map(|e| e.offset).collect())
}

fn classify_file(orig: &[u8], ins: &[Insertion], mutated: bool, o: &mut CaseOutcome) -> bool
{
    let mut nt = false;
    if !ins.is_empty()
    {
        let multibyte_before = ins.iter().any(|i| {
            let ls = orig[..i.offset].iter().rposition(|c| *c == b'\n').map(|p| p + 1).unwrap_or(0);
            orig[ls..i.offset].iter().any(|c| *c >= 0x80)
        });
        let tab_before = ins.iter().any(|i| {
            let ls = orig[..i.offset].iter().rposition(|c| *c == b'\n').map(|p| p + 1).unwrap_or(0);
            orig[ls..i.offset].contains(&b'\t')
        });
        let crlf = orig.windows(2).any(|w| w == b"\r\n");
        if multibyte_before
        {
            o.class("insertion-after-multibyte-char");
        }
        if tab_before
        {
            o.class("insertion-after-tab");
        }
        if crlf
        {
            o.class("file-crlf");
        }
        if ins.len() >= 2
        {
            o.class("file-multiple-insertions");
        }
        if orig.len() > 64 * 1024
        {
            o.class("file-over-64KiB");
        }
        if mutated
        {
            o.class("file-mutated-with-insertions");
        }
        nt = multibyte_before || tab_before || crlf || ins.len() >= 2 || orig.len() > 64 * 1024 || mutated;
    }
    else
    {
        o.class("file-without-insertions");
    }
    nt
}

/// Shared core: run check+edit on the rendered tree and apply the differential oracle.
fn raw_core(which: Which, case: &RawCase) -> CaseOutcome
{
    let mut o = CaseOutcome::default();
    let (mut tree, mut files) = case.tree.render();
    let cfg = &case.tree.cfg;
    if case.pre_edit
    {
        let sb = Sandbox::new();
        materialise(&sb.proj(), &tree);
        let _ = simple_run(&sb, false);
        let after = read_files(&sb.proj());
        for (rel, b) in files.iter_mut()
        {
            if let Some(n) = after.get(rel)
            {
                *b = n.clone();
                tree.insert(rel.clone(), Node::File(n.clone()));
            }
        }
        tree.remove("Breadlog.lock");
        o.class("pre-edited-tree");
        o.evals += 1;
    }
    let in_scope: Vec<String> = files.iter().filter(|(_, b)| is_utf8(b)).map(|(r, _)| r.clone()).collect();
    // the in-process parser must return on every file (hang suspects end the check as inconclusive)
    for (rel, b) in &files
    {
        if let Ok(t) = std::str::from_utf8(b)
        {
            if let Err(m) = crate::hook::find(t, cfg.is_structured(), &cfg.macro_pairs())
            {
                if crate::hook::is_timeout(&m)
                {
                    o.inconclusive = Some(format!("{}: {}", rel, m));
                    return o;
                }
            }
        }
    }
    if exhaustion_regime_raw(&files, cfg)
    {
        o.class("excluded-id-range-exhaustion-regime");
        return o;
    }
    let pair = run_pair(&tree);
    o.evals += 2;
    let mut devs = Vec::new();
    let all_ins = differential(&tree, &in_scope, &pair, &mut devs);
    o.class(cfg_label(cfg));
    let mut any_nt = false;
    let mut total_ins = 0;
    for (idx, (rel, orig)) in files.iter().enumerate()
    {
        let mutated = !case.tree.files[idx].mutations.is_empty();
        if !is_utf8(orig)
        {
            o.class("file-invalid-utf8");
            // must be named in an error line by both runs and left alone
            for (what, run) in [("--check", &pair.check), ("edit", &pair.edit)]
            {
                let named = run.report.unreadable.iter().any(|p| rel_path(p, &pair.sandbox.proj()) == *rel);
                if !named && which == Which::C17
                {
                    // an edit run that had nothing to insert anywhere stops before reading files again; accept when no other file needed work
                    devs.push(dev(
                        "unreadable-file-not-reported",
                        format!("{} is not valid UTF-8 but the {} run did not report it:\n{}", rel, what, run.output_tail()),
                    ));
                }
            }
            continue;
        }
        let ins = all_ins.get(rel).cloned().unwrap_or_default();
        total_ins += ins.len();
        // tie the executable to the parser: it inserts exactly where the parser says a usable reference is missing
        if let Some(mut want) = hook_missing(orig, cfg)
        {
            let mut got: Vec<usize> = ins.iter().map(|i| i.offset).collect();
            want.sort();
            got.sort();
            if want != got && all_ins.contains_key(rel)
            {
                devs.push(dev(
                    "edit-vs-parser-mismatch",
                    format!("{}: the parser predicts insertions at {:?} but the edit run inserted at {:?}", rel, want, got),
                ));
            }
        }
        // independent of the parser: a message that already starts with a valid reference token
        // must not receive another one in front of it
        if let Some(new) = pair.after_edit.get(rel)
        {
            for i in &ins
            {
                if i.kind == TokKind::Msg
                {
                    let rest = &new[(i.new_offset + i.len).min(new.len())..];
                    let rest = String::from_utf8_lossy(&rest[..rest.len().min(24)]).to_string();
                    if crate::oracle::valid_token(&rest).is_some()
                    {
                        devs.push(dev(
                            "token-inserted-before-existing-reference",
                            format!("{}: a token was inserted at offset {} directly in front of the valid reference {:?}", rel, i.offset, rest),
                        ));
                    }
                }
            }
            // files rendered from the statement model and not mutated: the model knows which statements already carry a reference
            if let (RawSource::Model(fs), true, false) = (&case.tree.files[idx].source, case.tree.files[idx].mutations.is_empty(), case.pre_edit)
            {
                if case.tree.files[idx].repeat <= 1
                {
                    let r = render_file(fs, cfg);
                    let (ds, _) = crate::model_check::check_edit(&r, new);
                    for d in ds
                    {
                        if d.signature.starts_with("edit-touched-") || d.signature.starts_with("decoy-edited") || d.signature == "non-literal-target-reference-misplaced"
                        {
                            devs.push(dev(&d.signature, format!("{}: {}", rel, d.message)));
                        }
                    }
                }
            }
        }
        if classify_file(orig, &ins, mutated, &mut o)
        {
            any_nt = true;
            o.extra_nontrivial.push(hash_of(&(cfg.is_structured(), orig)));
        }
        if case.tree.files[idx].repeat > 1
        {
            o.class("file-repeated-block");
        }
        if orig.is_empty()
        {
            o.class("file-empty");
        }
    }
    if case.tree.alias_link
    {
        o.class("tree-with-symlink-alias-of-a-source-file");
    }
    if total_ins == 0
    {
        o.class("tree-nothing-missing");
    }
    else
    {
        o.class("tree-with-missing");
    }
    if in_scope.len() < files.len() && in_scope.len() > 0
    {
        o.class("tree-mixes-unreadable-and-readable");
    }
    match which
    {
        Which::C03 => o.nontrivial = any_nt,
        Which::C05 =>
        {
            let counts: Vec<usize> = files.iter().map(|(r, _)| all_ins.get(r).map(|v| v.len()).unwrap_or(0)).collect();
            let differing = counts.iter().any(|c| *c != counts[0]) && counts.iter().filter(|c| **c > 0).count() >= 1 && counts.len() >= 2;
            let pos_hard = o.classes.iter().any(|c| c == "insertion-after-multibyte-char" || c == "insertion-after-tab" || c == "file-crlf");
            o.nontrivial = (total_ins > 0 && (pos_hard || differing)) || (total_ins == 0 && !in_scope.is_empty());
            if total_ins == 0
            {
                o.extra_nontrivial.clear();
            }
        },
        Which::C17 =>
        {
            o.nontrivial = case.tree.files.iter().any(|f| !f.mutations.is_empty())
                || files.iter().any(|(_, b)| !is_utf8(b) || b.len() > 1 << 20);
            o.extra_nontrivial.clear();
            // for C17 only crashes and unreadable-file handling count; the other deviations belong to C03/C05
            devs.retain(|d| {
                d.signature == "panic"
                    || d.signature == "crash-signal"
                    || d.signature == "token-inserted-before-existing-reference"
                    || d.signature == "unreadable-file-not-reported"
                    || d.signature == "out-of-scope-file-changed"
                    || d.signature == "edit-vs-parser-mismatch"
                    || d.signature == "check-no-total"
                    || d.signature == "unexpected-file-after-edit"
                    || d.signature == "other-files-not-processed-after-unreadable-file"
            });
        },
        Which::C06 => (),
    }
    // C17: a file that cannot be READ (injected EACCES/EIO on its open or read) is reported and skipped
    // while the other files are still processed exactly as without the fault
    if which == Which::C17 && devs.is_empty() && in_scope.len() >= 2 && crate::engine::hash_of(&case.tree) % 3 == 0
    {
        let sb2 = Sandbox::new();
        materialise(&sb2.proj(), &tree);
        let rec_run = crate::sandbox::shim_run(&sb2, true, None);
        o.evals += 1;
        let victim = &in_scope[(crate::engine::hash_of(&in_scope) as usize) % in_scope.len()];
        let vpath = sb2.proj().join(victim).to_string_lossy().to_string();
        let ops: Vec<&crate::sandbox::TraceOp> = rec_run.trace.iter().filter(|t| t.k > 0 && t.path == vpath && (t.kind == "open" || t.kind == "read")).collect();
        if let Some(t) = ops.get((crate::engine::hash_of(victim) as usize) % ops.len().max(1))
        {
            let errno = if t.kind == "open" { "EACCES" } else { "EIO" };
            let fr = crate::sandbox::shim_run(&sb2, true, Some(format!("fail:{}:{}", t.k, errno)));
            o.evals += 1;
            o.class("injected-read-failure-on-one-file");
            let mut d2 = Vec::new();
            no_crash(&fr, "--check with an unreadable file", &mut d2);
            let named = fr.report.unreadable.iter().any(|p| rel_path(p, &sb2.proj()) == *victim);
            // judged on what THIS run did: the injected failure has to have hit the victim's open/read
            // (a subject whose operation order varies between runs may meet op k somewhere else)
            let hit_victim = fr.trace.iter().any(|x| x.inj == "fail" && x.path == vpath && (x.kind == "open" || x.kind == "read"));
            if !hit_victim
            {
                o.class("injected-read-failure-missed-its-file");
            }
            else if !named
            {
                d2.push(dev(
                    "unreadable-file-not-reported",
                    format!("{} could not be read ({} injected on its {}), but the --check run did not report it:\n{}", victim, errno, t.kind, fr.output_tail()),
                ));
            }
            let base = by_file(&rec_run.report.missing, &sb2.proj());
            let got = by_file(&fr.report.missing, &sb2.proj());
            for f in &in_scope
            {
                if f == victim || !hit_victim
                {
                    continue;
                }
                let mut a = base.get(f).cloned().unwrap_or_default();
                let mut b = got.get(f).cloned().unwrap_or_default();
                a.sort();
                b.sort();
                if a != b
                {
                    d2.push(dev(
                        "other-files-not-processed-after-unreadable-file",
                        format!("{} could not be read; for {} the run reported {:?} instead of {:?}", victim, f, b, a),
                    ));
                }
            }
            if fr.exit == crate::sandbox::Exit::Timeout
            {
                o.inconclusive = Some("run with injected read failure exceeded the time limit".into());
            }
            else
            {
                devs.extend(d2);
            }
        }
    }
    for r in [&pair.check, &pair.edit]
    {
        if r.exit == crate::sandbox::Exit::Timeout
        {
            o.inconclusive = Some(format!("run exceeded the time limit on case {:?}", case.tree.files.iter().map(|f| f.describe()).collect::<Vec<_>>()));
            devs.clear();
        }
    }
    o.deviations = devs;
    o.sample = Some(json!({
        "structured": cfg.is_structured(),
        "files": case.tree.files.iter().zip(files.iter()).map(|(f, (rel, b))| json!({"path": rel, "source": f.describe(), "bytes": b.len(), "head": crate::engine::truncate(&String::from_utf8_lossy(&b[..b.len().min(300)]), 300)})).collect::<Vec<_>>(),
        "insertions": total_ins,
    }));
    o
}

fn raw_strategy(which: Which, tier_thorough: bool) -> BoxedStrategy<RawCase>
{
    let p = match which
    {
        Which::C03 | Which::C05 => RawParams {
            // "given at least one readable in-scope file": trees may mix unreadable and readable files
            invalid_utf8: true,
            p_mutated: 45,
            max_repeat: 400,
            max_bytes: if tier_thorough { 4 << 20 } else { 1 << 20 },
            valid_only: false,
        },
        Which::C17 => RawParams {
            invalid_utf8: true,
            p_mutated: 70,
            max_repeat: 2000,
            max_bytes: if tier_thorough { 6 << 20 } else { 4 << 20 },
            valid_only: false,
        },
        Which::C06 => RawParams {
            invalid_utf8: false,
            p_mutated: 0,
            max_repeat: 1,
            max_bytes: 1 << 20,
            valid_only: true,
        },
    };
    let pre = match which
    {
        Which::C05 => prop_oneof![3 => Just(false), 1 => Just(true)].boxed(),
        _ => prop_oneof![9 => Just(false), 1 => Just(true)].boxed(),
    };
    // C05: one tree in ten names an extension twice in `rust.extensions` (a file still is one file: round-10 seed C05)
    let dup_ext = if which == Which::C05 { prop_oneof![9 => Just(0u8), 1 => 1u8..=3].boxed() } else { Just(0u8).boxed() };
    (raw_tree(StructSel::Any, if which == Which::C05 { 5 } else { 3 }, p), pre, dup_ext)
        .prop_map(|(mut tree, pre_edit, dup)| {
            if dup > 0 && tree.cfg.extensions.is_none()
            {
                let l: &[&str] = match dup { 1 => &["rs", "rs"], 2 => &["rs", "inc", "rs"], _ => &["rs", "rs", "rs"] };
                tree.cfg.extensions = Some(l.iter().map(|s| s.to_string()).collect());
            }
            RawCase { tree, pre_edit }
        })
        .boxed()
}

// ---------------------------------------------------------------- C06

#[derive(Clone, Debug, PartialEq, Eq, Hash, Serialize, Deserialize)]
pub enum C06Case
{
    Model(ModelTree),
    Raw(RawTree),
}

fn lock_of(files: &BTreeMap<String, Vec<u8>>) -> Option<Vec<u8>>
{
    files.get("Breadlog.lock").cloned()
}

/// Lock file of a C06 model tree: absent, or a value just below / at a power of ten (the inserted tokens then have
/// 2 ... 10 digits; round-10 seed C06: ten-digit string-style references not read back) - always far below u32::MAX.
fn c06_lock() -> BoxedStrategy<crate::gen::LockSpec>
{
    use crate::gen::LockSpec;
    prop_oneof![
        5 => Just(LockSpec::Absent),
        1 => (1u32..=9, 0u32..12).prop_map(|(k, d)| LockSpec::Valid(10u32.pow(k) - 6 + d)),
        2 => (0u32..40).prop_map(|d| LockSpec::Valid(999_999_990 + d)),
        1 => (1_000_000_000u32..4_000_000_000).prop_map(LockSpec::Valid),
    ]
    .boxed()
}

fn c06_check(case: &C06Case) -> CaseOutcome
{
    let mut o = CaseOutcome::default();
    let _cfg_form = crate::sandbox::ConfigFormGuard::new((crate::engine::hash_of(case) % 3) as u8);
    let (tree, cfg, rendered, raw_files): (Tree, ConfigSpec, Vec<(String, Rendered)>, Vec<(String, Vec<u8>)>) = match case
    {
        C06Case::Model(mt) =>
        {
            let (t, r) = mt.render();
            let files = r.iter().map(|(rel, x)| (rel.clone(), x.text.clone().into_bytes())).collect();
            (t, mt.cfg.clone(), r, files)
        },
        C06Case::Raw(rt) =>
        {
            let (t, f) = rt.render();
            (t, rt.cfg.clone(), Vec::new(), f)
        },
    };
    if exhaustion_regime_raw(&raw_files, &cfg)
    {
        o.class("excluded-id-range-exhaustion-regime");
        return o;
    }
    let sb = Sandbox::new();
    materialise(&sb.proj(), &tree);
    let run1 = simple_run(&sb, false);
    o.evals = 1;
    o.class(cfg_label(&cfg));
    o.class(if cfg.cache_on() { "cache-on" } else { "cache-off" });
    let mut devs = Vec::new();
    no_crash(&run1, "first edit", &mut devs);
    if !run1.exit.success()
    {
        // the property only speaks about successful edits
        o.class("first-edit-failed");
        devs.push(dev("edit-failed", format!("fault-free edit of a valid tree failed ({}):\n{}", run1.exit.describe(), run1.output_tail())));
        o.deviations = devs;
        return o;
    }
    let after1 = read_files(&sb.proj());
    let lock1 = lock_of(&after1);
    let run2 = simple_run(&sb, true);
    o.evals += 1;
    no_crash(&run2, "--check after edit", &mut devs);
    if !run2.exit.success() || run2.report.grand_total != Some(0)
    {
        devs.push(dev(
            "check-after-edit-fails",
            format!(
                "after a successful edit, --check {} and reports {:?} missing: {:?}",
                run2.exit.describe(),
                run2.report.grand_total,
                run2.report.missing.iter().take(5).collect::<Vec<_>>()
            ),
        ));
    }
    let run3 = simple_run(&sb, false);
    o.evals += 1;
    no_crash(&run3, "second edit", &mut devs);
    let after3 = read_files(&sb.proj());
    for (rel, b1) in &after1
    {
        if rel == "Breadlog.lock"
        {
            continue;
        }
        if after3.get(rel) != Some(b1)
        {
            devs.push(dev("second-edit-changed-file", format!("a second edit run changed {}", rel)));
        }
    }
    if cfg.cache_on()
    {
        let v1 = lock1.as_ref().and_then(|b| parse_lock(&String::from_utf8_lossy(b)));
        let v3 = lock_of(&after3).and_then(|b| parse_lock(&String::from_utf8_lossy(&b)));
        if v1 != v3
        {
            devs.push(dev("second-edit-changed-lock", format!("lock value {:?} after the first edit, {:?} after the second", v1, v3)));
        }
    }
    // read-back of every insertion
    let mut any_nt = false;
    let mut n_ins = 0;
    for (rel, orig) in &raw_files
    {
        let new = match after1.get(rel)
        {
            Some(n) => n,
            None => continue,
        };
        let ins = match decompose(orig, new)
        {
            Ok(i) => i,
            Err(m) =>
            {
                devs.push(dev("not-insertion-only", format!("{}: {}", rel, m)));
                continue;
            },
        };
        n_ins += ins.len();
        let text = match std::str::from_utf8(new)
        {
            Ok(t) => t,
            Err(_) => continue,
        };
        let entries = match crate::hook::find(text, cfg.is_structured(), &cfg.macro_pairs())
        {
            Ok(e) => e,
            Err(m) =>
            {
                if crate::hook::is_timeout(&m)
                {
                    o.inconclusive = Some(m);
                }
                else
                {
                    devs.push(dev("panic", format!("{}: the parser panicked on the edited content: {}", rel, m)));
                }
                continue;
            },
        };
        for i in &ins
        {
            let id = i.value();
            let want_off = match i.kind
            {
                TokKind::Msg => i.new_offset,
                _ => i.new_offset + "ref = ".len(),
            };
            let e = entries.iter().find(|e| e.offset == want_off);
            match e
            {
                Some(e) if e.reference.map(|r| r as u128) == id => (),
                other => devs.push(dev(
                    "inserted-reference-not-read-back",
                    format!(
                        "{}: inserted {:?} (ID {}) at new offset {}; reading the result back gives {:?} (context {:?})",
                        rel,
                        i.kind,
                        i.digits,
                        i.new_offset,
                        other.map(|e| (e.offset, e.reference)),
                        crate::engine::truncate(&String::from_utf8_lossy(&new[i.new_offset.saturating_sub(30).min(new.len())..]), 90)
                    ),
                )),
            }
        }
    }
    for (_, r) in &rendered
    {
        for s in &r.stmts
        {
            if matches!(s.expect, Expect::Missing { .. })
            {
                let sp = &s.spec;
                let multi = r.text[s.start..s.end].contains('\n');
                if sp.target.is_some() || !sp.kvs.is_empty() || !matches!(sp.preamble, Preamble::None) || multi
                {
                    any_nt = true;
                    o.extra_nontrivial.push(hash_of(&(cfg.is_structured(), sp)));
                }
            }
        }
    }
    if rendered.is_empty() && n_ins > 0
    {
        any_nt = true;
        o.class("corpus-file-with-insertions");
    }
    if n_ins == 0
    {
        o.class("nothing-inserted");
    }
    o.nontrivial = any_nt && n_ins > 0;
    o.deviations = devs;
    o.sample = Some(json!({"kind": if rendered.is_empty() { "corpus" } else { "model" }, "insertions": n_ins,
        "first_file": raw_files.first().map(|(r, b)| json!({"path": r, "head": crate::engine::truncate(&String::from_utf8_lossy(&b[..b.len().min(400)]), 400)}))}));
    o
}

pub fn run(env: &Env, rec: &Recorder, which: Which) -> (String, Vec<&'static str>)
{
    let thorough = env.tier == crate::engine::Tier::Thorough;
    match which
    {
        Which::C06 =>
        {
            pbt(
                env,
                rec,
                "fixpoint",
                env.cases(700, 25_000),
                &|| {
                    let cache = prop_oneof![Just(Some(false)), Just(Some(true)), Just(None)];
                    let p = StmtParams {
                        p_preamble: 20,
                        ..StmtParams::default()
                    };
                    prop_oneof![
                        3 => (model_tree(StructSel::AnyOrOmitted, p, 3, 8, false), cache.clone(), c06_lock()).prop_map(|(mut mt, c, l)| {
                            mt.cfg.use_cache = c;
                            mt.lock = l;
                            C06Case::Model(mt)
                        }),
                        2 => (raw_strategy(Which::C06, false), cache).prop_map(|(rc, c)| {
                            let mut t = rc.tree;
                            t.cfg.use_cache = c;
                            C06Case::Raw(t)
                        }),
                    ]
                    .boxed()
                },
                &c06_check,
            );
            (
                "trees of valid usage only (rendered statement model incl. targets, key-values, modifiers, directives, existing references, layouts; unmutated real-code corpus files under a widened macro set), both styles, cache on/off/omitted, lock file absent or pre-set just below/at a power of ten (10 .. 10^9, so that inserted tokens have 2 to 10 digits) or anywhere in 10^9 .. 4*10^9: edit (must exit 0) -> --check must exit 0 with total 0 -> second edit must change no byte and keep the lock value -> every inserted (offset, id) is read back with exactly that id by the parser. Non-trivial = distinct statement that received a reference and has a target, key-values, a directive preamble or a multi-line layout (or a corpus file with insertions)".to_string(),
                vec!["read-back uses Breadlog's own parser through the verif-hooks library build, applied to the edited bytes"],
            )
        },
        _ =>
        {
            let (q, t) = match which
            {
                Which::C03 => (700, 20_000),
                Which::C05 => (700, 20_000),
                _ => (600, 20_000),
            };
            pbt(env, rec, "raw", env.cases(q, t), &move || raw_strategy(which, thorough), &move |c: &RawCase| raw_core(which, c));
            if which == Which::C05
            {
                // modelled trees: the verdict must also equal the model's Missing set
                pbt(
                    env,
                    rec,
                    "model",
                    env.cases(500, 15_000),
                    &|| {
                        let p = StmtParams {
                            p_preamble: 15,
                            p_context: 70,
                            ..StmtParams::default()
                        };
                        model_tree(StructSel::Any, p, 6, 8, true)
                    },
                    &|mt: &ModelTree| {
                        let (mut o, rendered, _) = model_cli(mt);
                        let mut counts = Vec::new();
                        for (_, r) in &rendered
                        {
                            let missing: Vec<&StmtInfo> = r.stmts.iter().filter(|s| matches!(s.expect, Expect::Missing { .. })).collect();
                            counts.push(missing.len());
                            for s in missing
                            {
                                let line = &r.text[s.line_start..s.start];
                                if line.contains('\t') || !line.is_ascii() || r.text.contains("\r\n")
                                {
                                    o.extra_nontrivial.push(hash_of(&(mt.cfg.is_structured(), &s.spec, line)));
                                }
                            }
                        }
                        if counts.iter().all(|c| *c == 0)
                        {
                            o.class("tree-nothing-missing");
                            o.nontrivial = true;
                        }
                        else
                        {
                            o.class("tree-with-missing");
                            o.nontrivial = counts.len() >= 2 && counts.iter().any(|c| *c != counts[0]);
                        }
                        o
                    },
                );
            }
            let rule = match which
            {
                Which::C03 => "trees of 1-3 files from three raw sources (real corpus files under a widened macro set; rendered statement-model files; literal odd texts) optionally mutated (byte/char/token-level, Unicode injection, CRLF conversion, truncation, duplication, invalid UTF-8) or repeated up to 1 MiB (quick) / 4 MiB (thorough); oracle: exact insertion decomposition (deleting the inserted tokens gives back the original bytes), printed count = tokens inserted, insertion offsets = offsets the parser calls missing, unreadable/out-of-scope files byte-identical. Non-trivial = distinct file content with >= 1 insertion and (multi-byte char or tab before an insertion | >= 2 insertions | CRLF | > 64 KiB | produced by mutation)",
                Which::C05 => "raw trees as for C03 (25 % pre-edited so that nothing is missing; one tree in ten with an extension named twice or three times in rust.extensions) and modelled trees of up to 6 files; oracle: multiset of (file,line,col) reported by --check = positions (position model: 1-based, characters) of the tokens the edit run inserts, totals and exit status consistent, for modelled files also = the model's Missing set. Non-trivial = distinct tree/statement with a missing reference on a line containing a tab, multi-byte character or CRLF, or files with different counts, or a tree with nothing missing (exit 0 side)",
                _ => "CLI half of C17: raw trees incl. invalid UTF-8, empty files, truncated statements, non-ASCII identifiers before `!(`, repeated blocks up to 4-6 MiB; oracle: neither mode panics / aborts / dies by signal, a file that is not valid UTF-8, or whose open/read fails (injected EACCES/EIO on a third of the multi-file trees), is named in an error line and left untouched while the other files are processed exactly as the parser predicts / as without the fault. Non-trivial = tree containing a mutated file, an invalid-UTF-8 file or a file > 1 MiB",
            };
            (rule.to_string(), vec!["a run exceeding the 360 s watchdog (an in-process parser call: 300 s) is reported as inconclusive (exit 2), never as a violation"])
        },
    }
}
