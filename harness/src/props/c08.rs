//! C08: an edit run that could not update a file does not report success.

use crate::engine::{hash_of, pbt_opts, CaseOutcome, Env, Recorder};
use crate::oracle::decompose;
use crate::props::fault_common::*;
use crate::sandbox::*;
use proptest::collection::vec;
use proptest::prelude::*;
use serde::{Deserialize, Serialize};
use serde_json::json;

#[derive(Clone, Debug, PartialEq, Eq, Hash, Serialize, Deserialize)]
pub struct C08Case
{
    pub tree: SizedTree,
    /// multi-fault plans: each is a list of (position fraction among write-path ops, errno choice)
    pub multi: Vec<Vec<(u16, u8)>>,
    /// also run with TMPDIR on another filesystem (real EXDEV)
    pub cross_fs: bool,
    /// restrict to exactly this plan (hand-written regression inputs)
    pub only_plan: Option<String>,
    /// one more fault-free run with an unusual temporary directory: 0 none, 1 a name that is not valid UTF-8,
    /// 2 a name with blanks and non-ASCII letters, 3 a path of about 900 bytes
    #[serde(default)]
    pub odd_tmpdir: u8,
    /// one more run over a tree of this many one-statement files with TMPDIR on another filesystem, so
    /// that every single file fails to be moved into place (0 = none)
    #[serde(default)]
    pub many_failing: u16,
}

fn is_scratch(p: &str) -> bool
{
    let name = p.rsplit('/').next().unwrap_or("");
    name.starts_with("breadlog-") && name.ends_with(".tmp")
}

fn judge(o: &mut CaseOutcome, tree: &Tree, files: &[(String, Vec<u8>)], fr: &FaultRun, plan: &str, cross: bool, seen: &mut std::collections::BTreeSet<String>)
{
    if fr.run.exit == Exit::Timeout
    {
        o.inconclusive = Some(format!("plan {} ran into the watchdog", plan));
        return;
    }
    // which injected failures hit the write path?
    let mut hit_write_path = false;
    let mut unlink_failed = false;
    for t in &fr.run.trace
    {
        if t.inj == "fail"
        {
            if (t.kind == "open" || t.kind == "write" || t.kind == "close" || t.kind == "fsync") && is_scratch(&t.path)
            {
                // a failing close is not a failure to create/write/move (data already flushed): skip it
                if t.kind != "close"
                {
                    hit_write_path = true;
                }
            }
            if t.kind == "rename"
            {
                hit_write_path = true;
            }
            if t.kind == "unlink"
            {
                unlink_failed = true;
            }
        }
        else if cross && t.kind == "rename" && t.ret < 0
        {
            hit_write_path = true;
        }
    }
    // An injected failure that (in THIS run) hit the reading of a source file instead of the write path
    // makes that file unreadable: it is reported and skipped, and the exit status of such a run is not
    // specified by C08. (Happens only with a subject whose operation order varies from run to run.)
    let hit_source_read = fr.run.trace.iter().any(|t| t.inj == "fail" && (t.kind == "open" || t.kind == "read") && !is_scratch(&t.path) && t.path.contains("/proj/src/") && (t.kind == "read" || (t.flags & 3) == 0));
    if hit_source_read
    {
        o.class("injected-failure-hit-a-source-read-instead");
        return;
    }
    let exited = matches!(fr.run.exit, Exit::Code(_));
    let mut fail = |o: &mut CaseOutcome, sig: &str, msg: String| {
        if seen.insert(sig.to_string())
        {
            o.fail(sig, msg);
        }
    };
    if hit_write_path && fr.run.exit.success()
    {
        fail(
            o,
            if cross { "success-reported-despite-cross-fs-rename-failure" } else { "success-reported-despite-write-path-failure" },
            format!(
                "plan {}: a temporary-file create/write/rename failed, yet the run exited 0:\n{}",
                if cross { "TMPDIR on another filesystem" } else { plan },
                fr.run.output_tail()
            ),
        );
    }
    if fr.run.exit.success()
    {
        let mut total = 0usize;
        for (rel, orig) in files
        {
            match fr.after.get(rel).map(|n| decompose(orig, n))
            {
                Some(Ok(ins)) => total += ins.len(),
                Some(Err(m)) => fail(o, "exit0-but-file-corrupt", format!("plan {}: exit 0 but {}: {}", plan, rel, m)),
                None => fail(o, "exit0-but-file-missing", format!("plan {}: exit 0 but {} is gone", plan, rel)),
            }
        }
        if let Some(n) = fr.run.report.inserted
        {
            if n as usize != total
            {
                fail(
                    o,
                    "exit0-count-mismatch",
                    format!("plan {}: exit 0 printing 'Num. inserted reference(s): {}' but {} token(s) are in the files", plan, n, total),
                );
            }
        }
        // a following fault-free --check must pass
        let chk = run_breadlog(&RunSpec {
            check: true,
            cwd: fr.sandbox.proj(),
            config_arg: "Breadlog.yaml".into(),
            tmpdir: fr.sandbox.tmp(),
            plan: None,
            trace: false,
            roots: vec![],
            timeout: std::time::Duration::from_secs(120),
        });
        o.evals += 1;
        if !chk.exit.success()
        {
            fail(
                o,
                "exit0-but-check-fails",
                format!(
                    "plan {}: the edit run exited 0 but a following --check reports {:?} missing reference(s)",
                    plan, chk.report.grand_total
                ),
            );
        }
    }
    if exited && !unlink_failed
    {
        let left: Vec<&String> = fr.tmp_left.iter().filter(|n| is_scratch(n)).collect();
        if !left.is_empty()
        {
            fail(o, "temp-file-left-behind", format!("plan {}: the run exited by itself ({}) and left {:?} in TMPDIR", plan, fr.run.exit.describe(), left));
        }
    }
    let _ = tree;
}

pub fn check(case: &C08Case) -> CaseOutcome
{
    let mut o = CaseOutcome::default();
    let _cfg_form = crate::sandbox::ConfigFormGuard::new((crate::engine::hash_of(case) % 3) as u8);
    let (tree, files, _missing, _) = case.tree.render();
    let r = fault_run(&tree, false, None, None);
    o.evals = 1;
    if !r.run.exit.success()
    {
        o.fail("reference-run-failed", format!("fault-free edit failed ({}):\n{}", r.run.exit.describe(), r.run.output_tail()));
        return o;
    }
    let ops: Vec<TraceOp> = r.run.trace.iter().filter(|t| t.k > 0).cloned().collect();
    // write path: scratch create / scratch writes / rename
    let wp: Vec<&TraceOp> = ops
        .iter()
        .filter(|t| ((t.kind == "open" || t.kind == "write" || t.kind == "fsync") && is_scratch(&t.path)) || t.kind == "rename")
        .collect();
    let files_updated = ops.iter().filter(|t| t.kind == "rename").count();
    let mut plans: Vec<String> = Vec::new();
    if let Some(p) = &case.only_plan
    {
        plans.push(p.clone());
    }
    else
    {
        for t in &wp
        {
            for e in applicable_errnos(&t.kind, t.flags)
            {
                plans.push(format!("fail:{}:{}", t.k, e));
            }
            if t.kind == "write"
            {
                plans.push(format!("short:{}", t.k));
            }
        }
        // persistent write failure (a device that stays full or was withdrawn): from a scratch-file write on, every write fails
        const PERSISTENT: [&str; 6] = ["ENOSPC", "EIO", "EINVAL", "ENOSYS", "EOPNOTSUPP", "EDQUOT"];
        for t in wp.iter().filter(|t| t.kind == "write")
        {
            plans.push(format!("wfail:{}:{}", t.k, PERSISTENT[t.k as usize % PERSISTENT.len()]));
            plans.push(format!("wfail:{}:{}", t.k, PERSISTENT[(t.k as usize / PERSISTENT.len() + t.k as usize + 2) % PERSISTENT.len()]));
        }
        for t in wp.iter().filter(|t| t.kind == "rename")
        {
            plans.push(format!("rfail:{}:{}", t.k, if t.k % 2 == 0 { "EEXIST" } else { "EBUSY" }));
        }
        // stop requests while a temporary file exists: the run still "exits normally", so clause (c) applies
        for t in &wp
        {
            plans.push(format!("sig:{}:15", t.k));
            plans.push(format!("sig:{}:{};sig:{}:{}", t.k, if t.k % 2 == 0 { 15 } else { 2 }, t.k + 1, if t.k % 2 == 0 { 2 } else { 15 }));
        }
        for m in &case.multi
        {
            let mut parts: Vec<String> = Vec::new();
            for (fr, e) in m
            {
                if wp.is_empty()
                {
                    continue;
                }
                let t = wp[crate::engine::idx16(*fr, wp.len())];
                let errs = applicable_errnos(&t.kind, t.flags);
                let d = format!("fail:{}:{}", t.k, errs[*e as usize % errs.len()]);
                if !parts.iter().any(|p| p.split(':').nth(1) == d.split(':').nth(1))
                {
                    parts.push(d);
                }
            }
            if parts.len() >= 2
            {
                plans.push(parts.join(";"));
            }
        }
    }
    o.class(if case.tree.structured { "structured" } else { "unstructured" });
    o.class(&format!("files-updated-{}", files_updated.min(6)));
    let mut seen = std::collections::BTreeSet::new();
    for plan in &plans
    {
        let fr = fault_run(&tree, false, Some(plan.clone()), None);
        o.evals += 1;
        o.class(if plan.starts_with("rfail") { "plan-persistent-rename-failure" } else if plan.starts_with("wfail") { "plan-persistent-write-failure" } else if plan.starts_with("sig") { "plan-stop-signal-on-write-path" } else if plan.contains(';') { "plan-multi-fault" } else if plan.starts_with("short") { "plan-short-write" } else { "plan-single-fault" });
        judge(&mut o, &tree, &files, &fr, plan, false, &mut seen);
        // non-trivial: the failure hit one file while another file was updated
        let updated_some = files.iter().any(|(rel, orig)| fr.after.get(rel).map(|n| n != orig).unwrap_or(false));
        let untouched_some = files.iter().zip(r.after.iter()).count() > 0
            && files.iter().any(|(rel, orig)| fr.after.get(rel) == Some(orig) && r.after.get(rel) != Some(orig));
        if updated_some && untouched_some
        {
            o.extra_nontrivial.push(hash_of(&(&case.tree, plan)));
        }
        if !o.deviations.is_empty() && plans.len() > 1
        {
            break;
        }
    }
    if case.cross_fs && case.only_plan.is_none() && o.deviations.is_empty()
    {
        // real cross-filesystem TMPDIR: project on tmpfs, scratch dir on the disk filesystem
        let base = build_dir().join("work");
        let _ = std::fs::create_dir_all(&base);
        let work = Sandbox::new_in(&base);
        let fr = fault_run(&tree, false, None, Some(work.root.clone()));
        o.evals += 1;
        o.class("cross-filesystem-tmpdir");
        let any_exdev = fr.run.trace.iter().any(|t| t.kind == "rename" && t.ret < 0 && t.errno == 18);
        if any_exdev
        {
            o.class("cross-filesystem-rename-really-failed-EXDEV");
            o.extra_nontrivial.push(hash_of(&(&case.tree, "cross-fs")));
        }
        judge(&mut o, &tree, &files, &fr, "cross-fs", true, &mut seen);
    }
    if case.odd_tmpdir != 0 && case.only_plan.is_none() && o.deviations.is_empty()
    {
        // no injection: the temporary directory itself is unusual (the run may fail, but then it says so and leaves nothing)
        use std::os::unix::ffi::OsStrExt;
        let holder = Sandbox::new();
        let name: Vec<u8> = match case.odd_tmpdir
        {
            1 => b"tmp-\xff\xfe-caf\xe9".to_vec(),
            2 => "tmp dir with blanks \u{e9}\u{4e2d}".as_bytes().to_vec(),
            _ => vec![b'x'; 200],
        };
        let mut dir = holder.root.join(std::ffi::OsStr::from_bytes(&name));
        if case.odd_tmpdir >= 3
        {
            for _ in 0..3
            {
                dir = dir.join(std::ffi::OsStr::from_bytes(&name));
            }
        }
        if std::fs::create_dir_all(&dir).is_ok()
        {
            let fr = fault_run(&tree, false, None, Some(dir.clone()));
            o.evals += 1;
            o.class(&format!("unusual-tmpdir-{}", case.odd_tmpdir));
            // a run that could not update a file here must not report success: compare with the files
            let untouched = files.iter().any(|(rel, orig)| fr.after.get(rel) == Some(orig) && r.after.get(rel) != Some(orig));
            if untouched && fr.run.exit.success()
            {
                o.fail("success-reported-despite-unusable-tmpdir", format!("TMPDIR {:?}: a file that needs references was left untouched, yet the run exited 0:\n{}", dir, fr.run.output_tail()));
            }
            judge(&mut o, &tree, &files, &fr, "unusual temporary directory", false, &mut seen);
        }
    }
    if case.many_failing != 0 && case.only_plan.is_none() && o.deviations.is_empty()
    {
        // N files, none of which can be moved into place: whatever N is, the run must not report success
        let mut big = Tree::new();
        big.insert("Breadlog.yaml".to_string(), tree.get("Breadlog.yaml").cloned().unwrap_or(Node::File(Vec::new())));
        big.insert("src".to_string(), Node::Dir);
        for i in 0..case.many_failing
        {
            big.insert(format!("src/d{}/f{}.rs", i % 7, i), Node::File(format!("fn f{}() {{\n    info!(\"needs a reference {}\");\n}}\n", i, i).into_bytes()));
        }
        let base = build_dir().join("work");
        let _ = std::fs::create_dir_all(&base);
        let work = Sandbox::new_in(&base);
        let fr = fault_run(&big, false, None, Some(work.root.clone()));
        o.evals += 1;
        o.class(&format!("many-files-all-failing-{}", case.many_failing));
        let untouched = fr.after.iter().filter(|(k, v)| k.starts_with("src/") && String::from_utf8_lossy(v).contains("info!(\"needs")).count();
        if fr.run.exit.success() && untouched > 0
        {
            o.fail(
                "success-reported-despite-cross-fs-rename-failure",
                format!("{} files, TMPDIR on another filesystem: {} file(s) were not updated, yet the run exited 0:\n{}", case.many_failing, untouched, fr.run.output_tail()),
            );
        }
    }
    o.nontrivial = false;
    o.sample = Some(json!({
        "files": files.iter().map(|f| json!({"path": f.0, "bytes": f.1.len()})).collect::<Vec<_>>(),
        "write_path_ops": wp.iter().map(|t| format!("{}:{}", t.k, t.kind)).collect::<Vec<_>>().join(" "),
        "plans": plans.iter().take(12).collect::<Vec<_>>(),
        "plans_run": plans.len(),
    }));
    o
}

pub fn strategy() -> BoxedStrategy<C08Case>
{
    (
        sized_tree(2, 6, 3, false, None),
        vec(vec((any::<u16>(), any::<u8>()), 2..=3), 0..10),
        prop_oneof![2 => Just(false), 1 => Just(true)],
        prop_oneof![3 => Just(0u8), 1 => 1u8..=3],
        prop_oneof![30 => Just(0u16), 1 => proptest::sample::select(&[126u16, 127, 128, 253, 254, 255, 256, 257, 510][..])],
    )
        .prop_map(|(tree, multi, cross_fs, odd_tmpdir, many_failing)| C08Case {
            tree,
            multi,
            cross_fs,
            only_plan: None,
            odd_tmpdir,
            many_failing,
        })
        .boxed()
}

pub fn run(env: &Env, rec: &Recorder) -> (String, Vec<&'static str>)
{
    pbt_opts(env, rec, "faults", env.cases(120, 4000), 40, &strategy, &check);
    (
        "trees of 2-6 small source files (subset needing insertions), both styles, cache on/off; per tree ALL single faults on the write path (temporary-file creation, every write incl. the final flush, the rename; each applicable errno, and short writes), a persistent write failure starting at every scratch-file write (ENOSPC/EIO/EINVAL/ENOSYS/EOPNOTSUPP/EDQUOT), a persistent rename failure starting at every rename (EEXIST/EBUSY), (1 tree in 30) a run over 126-510 one-statement files none of which can be moved into place, plus up to 10 generated 2-3-fault plans, plus one and two stop signals (SIGTERM/SIGINT) at every write-path operation, each on a fresh copy, plus (1 in 3 trees) a real cross-filesystem TMPDIR (project on tmpfs, TMPDIR on ext4) with no injection, plus (1 in 4 trees) a fault-free run whose TMPDIR has an unusual name (not valid UTF-8; blanks and non-ASCII letters; a path of about 800 bytes). Oracle: write-path failure => exit != 0; exit 0 => printed count = tokens in the files and a following fault-free --check passes; normal exit without injected unlink failure => no breadlog-*.tmp left in TMPDIR. Non-trivial = distinct (tree, plan) where the failure left one file untouched while another file was updated".to_string(),
        vec!["faults injected at libc call boundaries via LD_PRELOAD", "the cross-filesystem case relies on /dev/shm (tmpfs) and /verif/.build (disk) being different filesystems; the evidence counts how often rename really failed with EXDEV"],
    )
}
