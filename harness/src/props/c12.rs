//! C12: a reference counts as present exactly when the message starts with a
//! valid token. Bounded-exhaustive enumeration + near-miss family + grammar
//! strings, against the hand-written predicate `oracle::valid_token`.

use crate::engine::{enumerate, hash_of, pbt, CaseOutcome, Env, Recorder};
use crate::gen::*;
use crate::model_check;
use crate::oracle::{doc_regex_extract, valid_token};
use crate::props::common::model_cli;
use proptest::prelude::*;
use serde_json::json;
use std::sync::atomic::{AtomicU64, Ordering};

const ALPHABET: &[&str] = &["]", "0", "1", "5", "9", " ", "x", "４", "[", ":", "-", "٣", "\t", "\u{a0}"];
const HEADS: &[&str] = &[
    "[ref: ",
    "",
    "[ref:",
    "[ref:  ",
    "[Ref: ",
    " [ref: ",
    "ref: ",
    "[ref: 0",
    "[ref: 42949672",
    "[ref: 429496729",
    "[ref: 000000000",
    "[ref: 999999999",
    "[ref :",
    "[[ref: ",
];

fn lev(a: &[char], b: &[char]) -> usize
{
    let mut prev: Vec<usize> = (0..=b.len()).collect();
    for i in 1..=a.len()
    {
        let mut cur = vec![i; b.len() + 1];
        for j in 1..=b.len()
        {
            let c = if a[i - 1] == b[j - 1] { 0 } else { 1 };
            cur[j] = (prev[j] + 1).min(cur[j - 1] + 1).min(prev[j - 1] + c);
        }
        prev = cur;
    }
    prev[b.len()]
}

/// Non-trivial: after collapsing every ASCII digit run to "1", the first 8
/// characters are within edit distance 2 of "[ref: 1]".
pub fn nontrivial(s: &str) -> bool
{
    let mut norm: Vec<char> = Vec::new();
    let mut in_digits = false;
    for c in s.chars()
    {
        if c.is_ascii_digit()
        {
            if !in_digits
            {
                norm.push('1');
            }
            in_digits = true;
        }
        else
        {
            in_digits = false;
            norm.push(c);
        }
    }
    norm.truncate(8);
    let target: Vec<char> = "[ref: 1]".chars().collect();
    lev(&norm, &target) <= 2
}

fn check_string(s: &String) -> CaseOutcome
{
    let mut o = CaseOutcome::default();
    o.evals = 1;
    let want = valid_token(s);
    let got = match crate::hook::extract_reference(s)
    {
        Ok(g) => g,
        Err(m) =>
        {
            o.fail("panic", format!("extract_reference panicked on {:?}: {}", s, m));
            return o;
        },
    };
    if got != want
    {
        let sig = match (got, want)
        {
            (Some(_), None) => "accepts-invalid-token",
            (None, Some(_)) => "rejects-valid-token",
            _ => "wrong-token-value",
        };
        o.fail(sig, format!("message prefix {:?}: Breadlog reads {:?}, the documented rule gives {:?}", s, got, want));
    }
    // the same through the parser, when the string can be written inside a literal as is
    if !s.contains('"') && !s.contains('\\')
    {
        let code = format!("fn f() {{ info!(\"{} tail\"); }}\n", s);
        let full = format!("{} tail", s);
        let want2 = valid_token(&full);
        let entries = match crate::hook::find(&code, false, &[("log".to_string(), "info".to_string())])
        {
            Ok(e) => e,
            Err(m) =>
            {
                if crate::hook::is_timeout(&m)
                {
                    o.inconclusive = Some(m);
                }
                else
                {
                    o.fail("panic", format!("the parser panicked on {:?}: {}", code, m));
                }
                return o;
            },
        };
        o.evals += 1;
        if entries.len() != 1
        {
            o.fail("parser-entry-count", format!("{:?} gives {} entries", code, entries.len()));
        }
        else if entries[0].reference != want2
        {
            o.fail(
                "parser-token-mismatch",
                format!("{:?}: parser reads {:?}, the documented rule gives {:?}", code, entries[0].reference, want2),
            );
        }
        else if want2.is_none() && entries[0].token_for_7 != "[ref: 7] "
        {
            o.fail("token-text", format!("{:?}: would insert {:?}", code, entries[0].token_for_7));
        }
    }
    o.nontrivial = nontrivial(s);
    o
}

fn nth_tail(mut idx: u64, len: usize) -> String
{
    let mut t = String::new();
    for _ in 0..len
    {
        t.push_str(ALPHABET[(idx % ALPHABET.len() as u64) as usize]);
        idx /= ALPHABET.len() as u64;
    }
    t
}

fn near_miss_family() -> Vec<String>
{
    let mut nums: Vec<String> = Vec::new();
    for a in ["", "0", "1", "9"]
    {
        for b in ["", "0", "1", "9"]
        {
            for c in ["", "0", "1", "9"]
            {
                nums.push(format!("{}{}{}", a, b, c));
            }
        }
    }
    for n in [
        "4294967294",
        "4294967295",
        "4294967296",
        "4294967300",
        "4294967395",
        "5294967295",
        "9999999999",
        "10000000000",
        "0000000001",
        "00000000001",
        "04294967295",
        "004294967295",
        "0000000000",
        "429496729",
        "42949672950",
    ]
    {
        nums.push(n.to_string());
    }
    nums.sort();
    nums.dedup();
    let subs: Vec<char> = "[]ref: 019x４٣²RF-+\t\n\r\u{a0}\u{2003}\u{b}".chars().collect();
    let mut out: Vec<String> = Vec::new();
    for n in &nums
    {
        for suffix in ["", " x", "x", " "]
        {
            let base: Vec<char> = format!("[ref: {}]{}", n, suffix).chars().collect();
            out.push(base.iter().collect());
            for pos in 0..=base.len()
            {
                for c in &subs
                {
                    let mut v = base.clone();
                    v.insert(pos, *c);
                    out.push(v.iter().collect());
                    if pos < base.len()
                    {
                        let mut v = base.clone();
                        v[pos] = *c;
                        out.push(v.iter().collect());
                    }
                }
                if pos < base.len()
                {
                    let mut v = base.clone();
                    v.remove(pos);
                    out.push(v.iter().collect());
                    let mut v = base.clone();
                    v[pos] = if v[pos].is_uppercase() { v[pos].to_ascii_lowercase() } else { v[pos].to_ascii_uppercase() };
                    out.push(v.iter().collect());
                }
            }
        }
    }
    out.sort();
    out.dedup();
    out
}

pub fn run(env: &Env, rec: &Recorder) -> (String, Vec<&'static str>)
{
    // (0) replay entry point for single strings
    if env.replay.is_some()
    {
        enumerate(env, rec, "string", Vec::<String>::new(), &check_string);
    }
    else
    {
        // (1) bounded exhaustive: every head x every tail up to the length bound
        let max_len = env.tier.pick(5usize, 6usize);
        let mut total: u64 = 0;
        let mut blocks: Vec<(usize, usize, u64)> = Vec::new(); // (head, len, count)
        for h in 0..HEADS.len()
        {
            for l in 0..=max_len
            {
                let n = (ALPHABET.len() as u64).pow(l as u32);
                blocks.push((h, l, n));
                total += n;
            }
        }
        let next = AtomicU64::new(0);
        let bad: std::sync::Mutex<Vec<String>> = std::sync::Mutex::new(Vec::new());
        let nt_count = AtomicU64::new(0);
        std::thread::scope(|sc| {
            for _ in 0..env.threads
            {
                sc.spawn(|| loop
                {
                    let b = next.fetch_add(1, Ordering::Relaxed) as usize;
                    if b >= blocks.len()
                    {
                        break;
                    }
                    let (h, l, n) = blocks[b];
                    let mut nts: Vec<u64> = Vec::new();
                    for i in 0..n
                    {
                        let s = format!("{}{}", HEADS[h], nth_tail(i, l));
                        let want = valid_token(&s);
                        let got = crate::hook::extract_reference(&s).unwrap_or(Some(u32::MAX - 12345));
                        if got != want
                        {
                            let mut g = bad.lock().unwrap();
                            if g.len() < 20
                            {
                                g.push(s.clone());
                            }
                        }
                        if nontrivial(&s)
                        {
                            nts.push(hash_of(&s));
                        }
                    }
                    nt_count.fetch_add(nts.len() as u64, Ordering::Relaxed);
                    rec.add_nontrivial_many(nts);
                });
            }
        });
        rec.add_evals(total);
        rec.class("exhaustive-strings", total);
        rec.set_exhaustive(true);
        rec.extra(
            "exhaustive_part",
            json!({"heads": HEADS, "alphabet": ALPHABET, "max_tail_len": max_len, "strings": total, "nontrivial": nt_count.load(Ordering::Relaxed)}),
        );
        let bad = bad.into_inner().unwrap();
        // route mismatches through the recording machinery (saves replay files)
        enumerate(env, rec, "string", bad, &check_string);
        // (2) near-miss family, complete
        let fam = near_miss_family();
        rec.extra("near_miss_family_size", json!(fam.len()));
        rec.force_sample(json!({"near_miss_examples": [fam[fam.len() / 3].clone(), fam[fam.len() / 2].clone(), fam[fam.len() - 7].clone()]}));
        enumerate(env, rec, "string", fam, &check_string);
    }
    // (3) longer strings from a token grammar
    pbt(
        env,
        rec,
        "grammar",
        env.cases(40_000, 2_000_000),
        &|| {
            let piece = prop_oneof![
                4 => Just("[ref: ".to_string()),
                2 => "[0-9]{1,12}",
                2 => Just("]".to_string()),
                1 => Just(" ".to_string()),
                1 => Just("[".to_string()),
                1 => Just("ref".to_string()),
                1 => Just(":".to_string()),
                1 => "[a-zA-Z ]{1,4}",
                1 => proptest::sample::select(&["４", "٣", "²", "\u{a0}", "é", "\t", "4294967295", "4294967296"][..]).prop_map(|s| s.to_string()),
            ];
            proptest::collection::vec(piece, 0..7).prop_map(|v| v.concat()).boxed()
        },
        &check_string,
    );
    // (4) ref-like text elsewhere + the CLI: statements whose prefix / body / args / target / values carry token text
    let p = StmtParams {
        p_target: 40,
        p_kvs: 40,
        p_ref_kv: 0,
        p_prefix: 85,
        p_layout: 20,
        p_context: 20,
        p_preamble: 0,
        n_macros: 4,
    };
    let p1 = p.clone();
    pbt(
        env,
        rec,
        "inproc-stmt",
        env.cases(15_000, 600_000),
        &move || {
            let p2 = p1.clone();
            config_spec(StructSel::Always(false).strategy())
                .prop_flat_map(move |cfg| {
                    let fs = file_spec(&cfg, &p2, 8, false);
                    (Just(cfg), fs)
                })
                .boxed()
        },
        &|case: &(ConfigSpec, FileSpec)| {
            let (cfg, f) = case;
            let mut o = CaseOutcome::default();
            let r = render_file(f, cfg);
            o.evals = r.stmts.len() as u64;
            match crate::hook::find(&r.text, false, &cfg.macro_pairs())
            {
                Ok(entries) => o.deviations = model_check::check_entries(&r, cfg, &entries),
                Err(m) if crate::hook::is_timeout(&m) => o.inconclusive = Some(m),
            Err(m) => o.fail("panic", format!("the parser panicked: {}", m)),
            }
            for s in &r.stmts
            {
                let m = format!("{}{}", s.spec.msg_prefix, s.spec.msg_body);
                if nontrivial(&m)
                {
                    o.extra_nontrivial.push(hash_of(&m));
                }
                if s.spec.target.as_deref().map(|t| t.contains("[ref")).unwrap_or(false) || s.spec.args.iter().any(|a| a.contains("[ref"))
                {
                    o.class("ref-like-text-in-other-argument");
                }
                if m.find("[ref: ").map(|p| p > 0).unwrap_or(false)
                {
                    o.class("ref-like-text-not-at-start");
                }
            }
            o.sample = Some(json!({"file": crate::engine::truncate(&r.text, 600)}));
            o
        },
    );
    let p3 = p.clone();
    pbt(
        env,
        rec,
        "cli",
        env.cases(400, 10_000),
        &move || model_tree(StructSel::Always(false), p3.clone(), 2, 10, false),
        &|mt: &ModelTree| {
            let (mut o, rendered, pair) = model_cli(mt);
            o.class("via-cli");
            // every token Breadlog inserted satisfies the rule and the documented regex yields its number
            if let Some(pair) = pair
            {
                for (rel, r) in &rendered
                {
                    if let Some(new) = pair.after_edit.get(rel)
                    {
                        if let Ok(ins) = crate::oracle::decompose(r.text.as_bytes(), new)
                        {
                            for i in ins
                            {
                                let after = String::from_utf8_lossy(&new[i.new_offset..(i.new_offset + i.len + 8).min(new.len())]).to_string();
                                let v = valid_token(&after);
                                let rx = doc_regex_extract(&after);
                                if v.map(|x| x as u128) != i.value() || rx.as_deref() != Some(i.digits.as_str())
                                {
                                    o.fail(
                                        "inserted-token-invalid",
                                        format!("{}: inserted text {:?} is read as {:?} by the rule and {:?} by the documented regex", rel, after, v, rx),
                                    );
                                }
                                o.evals += 1;
                            }
                        }
                    }
                    for s in &r.stmts
                    {
                        let m = format!("{}{}", s.spec.msg_prefix, s.spec.msg_body);
                        if nontrivial(&m)
                        {
                            o.extra_nontrivial.push(hash_of(&("cli", &m)));
                        }
                    }
                }
            }
            o
        },
    );
    (
        "(1) every string head+tail for 14 heads around the token and all tails up to the length bound over a 14-symbol alphabet (ASCII and non-ASCII digits, brackets, colon, space, tab, no-break space, sign); (2) the complete single-edit neighbourhood of `[ref: D]` for all digit strings up to length 3 and the u32 / 10-digit boundary values; (3) longer strings from a token grammar; (4) modelled statements with ref-like text in prefix, body, target, key-value strings and format arguments, in-process and through the executable. Oracle: hand-written predicate for the documented rule, and the documented regex for inserted tokens. Non-trivial = distinct string whose first 8 characters (digit runs collapsed) are within edit distance 2 of `[ref: 1]`".to_string(),
        vec!["exhaustive:true refers to parts (1) and (2) only, up to the stated bounds"],
    )
}
