//! C18: SIGINT and SIGTERM stop a run cleanly. Per generated tree and mode,
//! each signal is delivered at EVERY operation boundary of the run.

use crate::engine::{hash_of, pbt_opts, CaseOutcome, Env, Recorder};
use crate::gen::parse_lock;
use crate::props::fault_common::*;
use crate::sandbox::*;
use proptest::prelude::*;
use serde::{Deserialize, Serialize};
use serde_json::json;

#[derive(Clone, Debug, PartialEq, Eq, Hash, Serialize, Deserialize)]
pub struct C18Case
{
    pub tree: SizedTree,
    pub check_mode: bool,
    /// restrict to one (signal, boundary) — hand-written regression inputs
    pub only: Option<(i32, u64)>,
    /// the subject's standard input is a terminal (a fresh pseudo-terminal) instead of /dev/null
    #[serde(default)]
    pub stdin_tty: bool,
}

struct TtyGuard;
impl Drop for TtyGuard
{
    fn drop(&mut self)
    {
        crate::sandbox::STDIN_TTY.with(|c| c.set(false));
    }
}

fn sig_name(s: i32) -> &'static str
{
    if s == 2
    {
        "SIGINT"
    }
    else
    {
        "SIGTERM"
    }
}

pub fn check(case: &C18Case) -> CaseOutcome
{
    let mut o = CaseOutcome::default();
    let _cfg_form = crate::sandbox::ConfigFormGuard::new((crate::engine::hash_of(case) % 3) as u8);
    // every line the subject prints is an operation boundary too ("at any moment")
    crate::sandbox::COUNT_STDIO.store(true, std::sync::atomic::Ordering::Relaxed);
    let sequential_subject = subject_is_sequential();
    crate::sandbox::STDIN_TTY.with(|c| c.set(case.stdin_tty));
    let _tty = TtyGuard;
    if case.stdin_tty
    {
        o.class("stdin-is-a-terminal");
    }
    let (tree, files, missing, _) = case.tree.render();
    let names: Vec<String> = files.iter().map(|f| f.0.clone()).collect();
    let r = fault_run(&tree, case.check_mode, None, None);
    o.evals = 1;
    let ref_edit = if case.check_mode { fault_run(&tree, false, None, None) } else { fault_run(&tree, false, None, None) };
    o.evals += 1;
    if !ref_edit.run.exit.success()
    {
        o.fail("reference-run-failed", format!("fault-free edit failed ({}):\n{}", ref_edit.run.exit.describe(), ref_edit.run.output_tail()));
        return o;
    }
    let ref_off = match reference_offsets(&files, &ref_edit.after)
    {
        Ok(m) => m,
        Err(e) =>
        {
            o.fail("reference-run-not-insertion-only", e);
            return o;
        },
    };
    let ops: Vec<TraceOp> = r.run.trace.iter().filter(|t| t.k > 0).cloned().collect();
    let k_total = r.run.counted_ops();
    let src_prefix = r.sandbox.proj().join("src").to_string_lossy().to_string();
    // start of source discovery: first op on the source directory
    let d = ops.iter().find(|t| t.path.starts_with(&src_prefix)).map(|t| t.k).unwrap_or(1);
    let is_src_file = |p: &str| p.starts_with(&src_prefix) && p.ends_with(".rs");
    let first_src_file_op = ops.iter().find(|t| is_src_file(&t.path)).map(|t| t.k).unwrap_or(k_total);
    let last_src_file_op = ops.iter().filter(|t| is_src_file(&t.path) || is_src_file(&t.path2)).map(|t| t.k).max().unwrap_or(0);
    // open of the last source file in the (single) check pass
    let last_file_open = ops.iter().filter(|t| t.kind == "open" && is_src_file(&t.path)).map(|t| t.k).max().unwrap_or(0);
    let files_needing_work = files
        .iter()
        .filter(|(rel, orig)| ref_edit.after.get(rel).map(|n| n != orig).unwrap_or(false))
        .count();
    // Does the subject work on one source file at a time? (a second source file opened while another one
    // is still open, in the fault-free run, shows a subject that processes files concurrently)
    let sequential = sequential_subject && !trace_shows_overlapping_source_files(&r.run.trace);
    if !sequential
    {
        o.class("subject-processes-files-concurrently");
    }
    o.class(if case.check_mode { "mode-check" } else { "mode-edit" });
    o.class(if case.tree.structured { "structured" } else { "unstructured" });
    o.class(if case.tree.cache { "cache-on" } else { "cache-off" });
    // (signal, boundary, optional second signal at a later boundary)
    let mut plans: Vec<(i32, u64, Option<(i32, u64)>)> = Vec::new();
    // (full plan text, signal, boundary of the signal): an injected lock-write failure precedes the signal
    let mut fault_plans: Vec<(String, i32, u64, u8)> = Vec::new();
    match case.only
    {
        Some(p) => plans.push((p.0, p.1, None)),
        None =>
        {
            for s in [15, 2]
            {
                for k in 1..=k_total + 1
                {
                    plans.push((s, k, None));
                }
            }
            // a lock-file write that fails once, followed by a stop request later in the same run
            if !case.check_mode
            {
                for t in ops.iter().filter(|t| t.kind == "rename" && t.path2.ends_with("/Breadlog.lock"))
                {
                    for j in (t.k + 1)..=k_total
                    {
                        if (j - t.k) % 2 == 1 || j - t.k < 12
                        {
                            fault_plans.push((format!("fail:{}:ENOSPC;sig:{}:{}", t.k, j, if j % 2 == 0 { 15 } else { 2 }), if j % 2 == 0 { 15 } else { 2 }, j, 1));
                        }
                    }
                }
                // a source file that cannot be moved into place (its IDs are spent), followed by a stop request
                for t in ops.iter().filter(|t| t.kind == "rename" && is_src_file(&t.path2))
                {
                    for j in (t.k + 1)..=k_total
                    {
                        if (j - t.k) % 3 == 1 || j - t.k < 10
                        {
                            let sg = if j % 2 == 0 { 2 } else { 15 };
                            fault_plans.push((format!("fail:{}:{};sig:{}:{}", t.k, if t.k % 2 == 0 { "EXDEV" } else { "EACCES" }, j, sg), sg, j, 2));
                        }
                    }
                }
            }
            // a second stop request while the first is being honoured must not kill the process either
            for k in d..=k_total
            {
                let (s1, s2) = if k % 2 == 0 { (15, 2) } else { (2, 15) };
                plans.push((s1, k, Some((s2, k + 1 + (k % 3)))));
                if k % 4 == 0
                {
                    plans.push((s1, k, Some((s1, k + 1))));
                }
            }
        },
    }
    let mut seen = std::collections::BTreeSet::new();
    // unify: (plan text, first signal, its boundary, second signal, preceded by an injected lock-write failure)
    let mut all_plans: Vec<(String, i32, u64, Option<(i32, u64)>, u8)> = plans
        .iter()
        .map(|(sig, k, second)| {
            let text = match second
            {
                None => format!("sig:{}:{}", k, sig),
                Some((s2, k2)) => format!("sig:{}:{};sig:{}:{}", k, sig, k2, s2),
            };
            (text, *sig, *k, *second, 0u8)
        })
        .collect();
    for (text, sig, k, what) in &fault_plans
    {
        all_plans.push((text.clone(), *sig, *k, None, *what));
    }
    let n_plans = all_plans.len();
    for (plan, sig, k, second, fault_kind) in &all_plans
    {
        let plan = plan.clone();
        let after_fault = &(*fault_kind != 0);
        if second.is_some()
        {
            o.class("two-signals");
        }
        if *fault_kind == 1
        {
            o.class("signal-after-failed-lock-write");
        }
        if *fault_kind == 2
        {
            o.class("signal-after-failed-source-rename");
        }
        let fr = fault_run(&tree, case.check_mode, Some(plan.clone()), None);
        o.evals += 1;
        let delivered = fr.run.trace.iter().any(|t| t.kind == "SIGNAL");
        if *after_fault && !fr.run.trace.iter().any(|t| t.inj == "fail" && t.kind == "rename" && if *fault_kind == 1 { t.path2.ends_with("/Breadlog.lock") } else { t.path2.contains("/proj/src/") && t.path2.ends_with(".rs") })
        {
            // the operation order of THIS run differed from the recording run's: the injected failure
            // hit something other than a lock-file write, which is not this plan's subject
            o.class("lock-write-failure-plan-missed-its-operation");
            continue;
        }
        if fr.run.exit == Exit::Timeout
        {
            o.inconclusive = Some(format!("plan {} ran into the watchdog", plan));
            continue;
        }
        let op_desc = ops.iter().find(|t| t.k == *k).map(|t| format!("{} {}", t.kind, t.path.rsplit('/').next().unwrap_or(""))).unwrap_or_else(|| "after the last operation".into());
        let ctx = format!(
            "{} before op {} ({}){} of a {} run",
            sig_name(*sig),
            k,
            op_desc,
            match (second, after_fault)
            {
                (Some((s2, k2)), _) => format!(" and {} before op {}", sig_name(*s2), k2),
                (None, true) => format!(" after an injected failure of a {} (plan {})", if *fault_kind == 1 { "lock-file write" } else { "source-file rename" }, plan),
                (None, false) => String::new(),
            },
            if case.check_mode { "--check" } else { "edit" }
        );
        let mut fail = |o: &mut CaseOutcome, sig_: String, msg: String| {
            if seen.insert(sig_.clone())
            {
                o.fail(&sig_, msg);
            }
        };
        // files: untouched or complete, always
        let mut updated = 0;
        let mut max_inserted: u128 = 0;
        for (rel, orig) in &files
        {
            match file_state(orig, fr.after.get(rel), &ref_off[rel])
            {
                FileState::Untouched => (),
                FileState::Updated(ins) =>
                {
                    updated += 1;
                    for i in ins
                    {
                        max_inserted = max_inserted.max(i.value().unwrap_or(0));
                    }
                },
                FileState::Missing => fail(&mut o, "source-file-missing".into(), format!("{}: {} no longer exists", ctx, rel)),
                FileState::Corrupt(m) => fail(&mut o, "source-file-corrupt".into(), format!("{}: {}: {}", ctx, rel, m)),
            }
        }
        let others = other_entries_changed(&fr, &names);
        if !others.is_empty()
        {
            fail(&mut o, "other-entry-changed".into(), format!("{}: {:?}", ctx, others));
        }
        if case.check_mode && updated > 0
        {
            fail(&mut o, "check-modified-files".into(), format!("{}: --check updated {} file(s)", ctx, updated));
        }
        if !delivered
        {
            // boundary K+1: no further operation, the signal was never sent
            o.class("boundary-never-reached");
            continue;
        }
        if *k < d
        {
            o.class("boundary-before-discovery");
            // before the handlers necessarily exist: the process may be terminated, but then nothing is modified
            if updated > 0 && matches!(fr.run.exit, Exit::Signal(_))
            {
                fail(&mut o, "killed-early-but-modified".into(), format!("{}: the process was killed by the signal yet {} file(s) were updated", ctx, updated));
            }
            continue;
        }
        o.class(&format!("boundary-{}", sig_name(*sig)));
        match &fr.run.exit
        {
            Exit::Signal(s) => fail(
                &mut o,
                format!("killed-by-{}", sig_name(*sig)),
                format!("{}: the process did not exit by itself, it was killed by signal {}", ctx, s),
            ),
            Exit::Code(0) =>
            {
                if case.check_mode
                {
                    if missing > 0
                    {
                        fail(&mut o, "interrupted-check-passes".into(), format!("{}: exit 0 although {} reference(s) are missing in the tree", ctx, missing));
                    }
                    else
                    {
                        // judged on what THIS run did: every source file has to have been opened before the signal
                        let mut opened: std::collections::BTreeSet<&str> = std::collections::BTreeSet::new();
                        for t in &fr.run.trace
                        {
                            if t.kind == "SIGNAL"
                            {
                                break;
                            }
                            if t.kind == "open" && t.ret >= 0 && t.path.contains("/proj/src/") && t.path.ends_with(".rs")
                            {
                                opened.insert(t.path.as_str());
                            }
                        }
                        if opened.len() < files.len()
                        {
                            fail(
                                &mut o,
                                "interrupted-check-passes".into(),
                                format!("{}: exit 0 although the scan had reached only {} of {} source files when the signal arrived (the last file's open is op {} of the fault-free run)", ctx, opened.len(), files.len(), last_file_open),
                            );
                        }
                    }
                }
                else
                {
                    let chk = run_breadlog(&RunSpec {
                        check: true,
                        cwd: fr.sandbox.proj(),
                        config_arg: "Breadlog.yaml".into(),
                        tmpdir: fr.sandbox.tmp(),
                        plan: None,
                        trace: false,
                        roots: vec![],
                        timeout: std::time::Duration::from_secs(120),
                    });
                    o.evals += 1;
                    if !chk.exit.success()
                    {
                        fail(
                            &mut o,
                            "interrupted-edit-reports-success".into(),
                            format!("{}: exit 0 but a following --check finds {:?} missing reference(s)", ctx, chk.report.grand_total),
                        );
                    }
                }
            },
            Exit::Code(_) => (),
            Exit::Timeout => (),
        }
        // "finishes the file it is working on, stops": after the signal at most one more source
        // file may be started (the one whose open was already under way)
        {
            let mut after_signal = false;
            let mut started: Vec<&str> = Vec::new();
            for t in &fr.run.trace
            {
                if t.kind == "SIGNAL"
                {
                    after_signal = true;
                    continue;
                }
                if after_signal && t.kind == "open" && (t.flags & 3) == 0 && t.path.ends_with(".rs") && t.path.contains("/proj/src/")
                {
                    if !started.contains(&t.path.as_str())
                    {
                        started.push(t.path.as_str());
                    }
                }
            }
            if started.len() > 1 && sequential && !trace_shows_overlapping_source_files(&fr.run.trace)
            {
                fail(
                    &mut o,
                    "continued-after-stop-request".into(),
                    format!("{}: after the signal the run still started work on {} source files: {:?}", ctx, started.len(), started.iter().map(|p| p.rsplit('/').next().unwrap_or("")).collect::<Vec<_>>()),
                );
            }
        }
        if !case.check_mode && case.tree.cache && updated > 0
        {
            let lock = fr.after.get("Breadlog.lock").map(|b| String::from_utf8_lossy(b).to_string());
            match lock.as_deref().and_then(parse_lock)
            {
                Some(v) if (v as u128) > max_inserted => (),
                other => fail(
                    &mut o,
                    "lock-does-not-cover-written-ids".into(),
                    format!(
                        "{}: {} file(s) were updated with IDs up to {}, but the lock file {}",
                        ctx,
                        updated,
                        max_inserted,
                        match other
                        {
                            Some(v) => format!("says next_reference_id: {}", v),
                            None => format!("is absent or unparsable ({:?})", lock.map(|l| crate::engine::truncate(&l, 60))),
                        }
                    ),
                ),
            }
        }
        if *k > first_src_file_op && *k <= last_src_file_op && files_needing_work >= 2
        {
            o.extra_nontrivial.push(hash_of(&(&case.tree, case.check_mode, &plan)));
        }
        if !o.deviations.is_empty() && n_plans > 1 && o.deviations.len() >= 3
        {
            break;
        }
    }
    o.sample = Some(json!({
        "mode": if case.check_mode { "check" } else { "edit" },
        "files": files.iter().map(|f| json!({"path": f.0, "bytes": f.1.len()})).collect::<Vec<_>>(),
        "files_needing_work": files_needing_work,
        "K": k_total, "discovery_starts_at_op": d,
        "boundaries_x_signals": n_plans,
        "op_sequence": ops.iter().map(|t| format!("{}:{}", t.k, t.kind)).collect::<Vec<_>>().join(" "),
    }));
    o
}

pub fn strategy() -> BoxedStrategy<C18Case>
{
    (sized_tree(2, 8, 3, false, None), prop_oneof![2 => Just(false), 1 => Just(true)], prop_oneof![2 => Just(false), 1 => Just(true)])
        .prop_map(|(tree, check_mode, stdin_tty)| C18Case {
            tree,
            check_mode,
            only: None,
            stdin_tty,
        })
        .boxed()
}

pub fn run(env: &Env, rec: &Recorder) -> (String, Vec<&'static str>)
{
    pbt_opts(env, rec, "signals", env.cases(40, 1000), 30, &strategy, &check);
    rec.set_exhaustive(true);
    (
        "trees of 2-8 source files (some needing insertions, some not), both modes, standard input /dev/null or (one case in three) a terminal, both styles, cache on/off, lock absent/consistent; a recording run gives the K counted operations (file system calls on project and TMPDIR paths AND every line written to standard output / standard error); then for each of SIGTERM and SIGINT and EVERY boundary k in 1..=K+1 the signal is delivered immediately before operation k (LD_PRELOAD shim, thread-directed so that the handler has run before the operation starts), plus, for every boundary from the start of discovery on, a pair of signals (the second one 1-3 operations later), plus (edit mode) every lock-file write failed once (ENOSPC), and every rename onto a source file failed (EXDEV/EACCES), each followed by a signal at the later boundaries, each on a fresh copy. Oracle from the start of source discovery on: the process exits by itself; after the signal it starts work on at most one more source file (judged when a probe run over eight 400 KB files and the case's own runs show a subject that has one source file open at a time; a subject that works on several files at once finishes those); exit 0 only if nothing was left to do (edit: a following --check passes; check: no reference missing and every source file had been opened before the signal arrived); every source file untouched or a complete update; with the cache on and >= 1 file updated a parsable lock with next > every ID inserted. Before discovery: the process may be killed but then nothing is modified. exhaustive=true: all boundaries of each generated tree. Non-trivial = distinct (tree, mode, signal, boundary) strictly between the first and last source-file operation on a tree with >= 2 files needing work".to_string(),
        vec!["signals are delivered synchronously at libc call boundaries (kill(getpid()) from the interposer); asynchronous delivery inside a system call is not enumerated", "the harness resets SIGINT/SIGTERM to SIG_DFL in the child so that an inherited SIG_IGN cannot mask a missing handler"],
    )
}
