//! Generators (proptest strategies), rendering and the reference model of log
//! statements, files, configurations and trees.

use crate::oracle::TokKind;
use crate::sandbox::{Node, Tree};
use proptest::collection::vec;
use proptest::prelude::*;
use proptest::sample::select;
use serde::{Deserialize, Serialize};

// ---------------------------------------------------------------- configuration

#[derive(Clone, Debug, PartialEq, Eq, Hash, Serialize, Deserialize)]
pub struct MacroCfg
{
    pub module: String,
    pub name: String,
}

#[derive(Clone, Debug, PartialEq, Eq, Hash, Serialize, Deserialize)]
pub struct ConfigSpec
{
    pub source_dir: String,
    pub macros: Vec<MacroCfg>,
    pub structured: Option<bool>,
    pub use_cache: Option<bool>,
    pub extensions: Option<Vec<String>>,
}

impl ConfigSpec
{
    pub fn is_structured(&self) -> bool
    {
        self.structured.unwrap_or(false)
    }
    pub fn cache_on(&self) -> bool
    {
        self.use_cache.unwrap_or(true)
    }
    pub fn macro_pairs(&self) -> Vec<(String, String)>
    {
        self.macros.iter().map(|m| (m.module.clone(), m.name.clone())).collect()
    }
    pub fn yaml(&self) -> String
    {
        let mut y = String::from("---\n");
        y.push_str(&format!("source_dir: \"{}\"\n", self.source_dir));
        if let Some(c) = self.use_cache
        {
            y.push_str(&format!("use_cache: {}\n", c));
        }
        y.push_str("rust:\n");
        if let Some(s) = self.structured
        {
            y.push_str(&format!("  structured: {}\n", s));
        }
        y.push_str("  log_macros:\n");
        for m in &self.macros
        {
            y.push_str(&format!("    - module: \"{}\"\n      name: \"{}\"\n", m.module, m.name));
        }
        if let Some(e) = &self.extensions
        {
            y.push_str("  extensions:\n");
            for x in e
            {
                y.push_str(&format!("    - \"{}\"\n", x));
            }
        }
        y
    }
    pub fn simple(structured: bool, use_cache: Option<bool>) -> ConfigSpec
    {
        ConfigSpec {
            source_dir: "./src".to_string(),
            macros: vec![
                MacroCfg {
                    module: "log".into(),
                    name: "info".into(),
                },
                MacroCfg {
                    module: "log".into(),
                    name: "warn".into(),
                },
                MacroCfg {
                    module: "log".into(),
                    name: "error".into(),
                },
            ],
            structured: Some(structured),
            use_cache,
            extensions: None,
        }
    }
}

pub const MACRO_NAMES: &[&str] = &["info", "warn", "error", "debug", "trace", "info2", "infos", "xinfo", "log_it", "my_info", "_w", "élog", "警告", "𠮷w"];
pub const MODULES: &[&str] = &["log", "tracing", "my::logger", "a::b::c", "slog", "crate::util::log"];

/// 1..=4 configured macros (distinct (module, name) pairs; names may repeat across modules).
pub fn macro_set() -> BoxedStrategy<Vec<MacroCfg>>
{
    (vec((0usize..MACRO_NAMES.len(), 0usize..MODULES.len()), 1..=4))
        .prop_map(|v| {
            let mut out: Vec<MacroCfg> = Vec::new();
            for (n, m) in v
            {
                let name = MACRO_NAMES[n].to_string();
                let module = MODULES[m].to_string();
                // the same macro name may be configured for several modules; exact duplicates are dropped
                if !out.iter().any(|x| x.name == name && x.module == module)
                {
                    out.push(MacroCfg { module, name });
                }
            }
            out
        })
        .boxed()
}

pub fn config_spec(structured: BoxedStrategy<Option<bool>>) -> BoxedStrategy<ConfigSpec>
{
    (macro_set(), structured)
        .prop_map(|(macros, structured)| ConfigSpec {
            source_dir: "./src".to_string(),
            macros,
            structured,
            use_cache: Some(false),
            extensions: None,
        })
        .boxed()
}

pub fn any_structured() -> BoxedStrategy<Option<bool>>
{
    prop_oneof![Just(Some(false)), Just(Some(true))].boxed()
}

/// Plain-data selector for the structured setting (strategies are not Send).
#[derive(Clone, Copy, Debug, PartialEq, Eq)]
pub enum StructSel
{
    Any,
    Always(bool),
    /// also the omitted key
    AnyOrOmitted,
}

impl StructSel
{
    pub fn strategy(&self) -> BoxedStrategy<Option<bool>>
    {
        match self
        {
            StructSel::Any => any_structured(),
            StructSel::Always(b) => Just(Some(*b)).boxed(),
            StructSel::AnyOrOmitted => prop_oneof![Just(Some(false)), Just(Some(true)), Just(None)].boxed(),
        }
    }
}

// ---------------------------------------------------------------- statements

#[derive(Clone, Debug, PartialEq, Eq, Hash, Serialize, Deserialize)]
pub struct Kv
{
    pub key: String,
    /// without the colon: "?", "debug", "%", "display", "err", "sval", "serde"
    pub modifier: Option<String>,
    /// source text of the value; None = shorthand key
    pub value: Option<String>,
}

#[derive(Clone, Copy, Debug, PartialEq, Eq, Hash, Serialize, Deserialize)]
pub enum DirKind
{
    Ignore,
    NoKvp,
}

impl DirKind
{
    pub fn text(&self) -> &'static str
    {
        match self
        {
            DirKind::Ignore => "breadlog:ignore",
            DirKind::NoKvp => "breadlog:no-kvp",
        }
    }
}

/// What is written on the line(s) immediately before the statement's line.
#[derive(Clone, Debug, PartialEq, Eq, Hash, Serialize, Deserialize)]
pub enum Preamble
{
    None,
    /// A directive comment on its own line, followed by `blanks` blank lines.
    Directive
    {
        kind: DirKind,
        block: bool,
        /// bit i set = upper-case the i-th letter
        case_mask: u32,
        ws_before: String,
        ws_after: String,
        indent: String,
        blanks: Vec<String>,
    },
    /// A comment that merely contains directive-like text.
    OtherText
    {
        text: String,
        block: bool,
    },
    /// directive line, then a line of code
    ThenCode
    {
        kind: DirKind,
        code: String,
    },
    /// directive line, then another comment line
    ThenComment
    {
        kind: DirKind,
        comment: String,
    },
    /// directive as trailing comment of a code line
    TrailingOnCode
    {
        kind: DirKind,
        code: String,
        block: bool,
    },
}

#[derive(Clone, Debug, PartialEq, Eq, Hash, Serialize, Deserialize)]
pub struct StmtSpec
{
    pub macro_idx: usize,
    pub qualified: bool,
    pub target: Option<String>,
    pub kvs: Vec<Kv>,
    /// a `ref` entry: (position among the kvs, value text)
    pub ref_kv: Option<(usize, String)>,
    /// capture modifier on the `ref` key (`ref:% = 12`), valid for the log crate and recognised like a plain `ref`
    #[serde(default)]
    pub ref_modifier: Option<String>,
    /// raw text at the very start of the message literal ("" = nothing)
    pub msg_prefix: String,
    /// rest of the literal's source text (already escaped)
    pub msg_body: String,
    pub args: Vec<String>,
    pub trailing_comma: bool,
    /// indices into GAPS, used cyclically
    pub gaps: Vec<usize>,
    pub before: usize,
    pub after: usize,
    pub preamble: Preamble,
    /// directive comment after the statement (same line) — must have no effect on it
    pub trailing_directive: Option<DirKind>,
    /// whitespace between the macro name and `!` (index into NAME_GAPS; 0 = none)
    #[serde(default)]
    pub name_gap: u8,
    /// whitespace between `!` and `(` (index into NAME_GAPS; 0 = none)
    #[serde(default)]
    pub bang_gap: u8,
}

pub const NAME_GAPS: &[&str] = &["", " ", "\t", "\n    ", "  ", " /* c */ ", "/**/", "\u{200e}", " // x\n    ", "\u{200f} "];

pub const GAPS: &[&str] = &[
    "",
    " ",
    "\n    ",
    "  ",
    "\t",
    "\n\t\t",
    " /* c */ ",
    "/*c*/",
    " // c\n    ",
    "\r\n    ",
    "\n\n        ",
    " /* a\n b */ ",
    " /* x, y; z */ ",
    " // note, more; end\n    ",
    "/* \"q\" ( */",
];
/// gap index that is a plain single space
pub const GAP_SPACE: usize = 1;

pub const BEFORE: &[&str] = &[
    "    ",
    "",
    "\t",
    "{ ",
    "foo(); ",
    "x => ",
    "if c { ",
    "} else { ",
    "let _r = ",
    "|| ",
    "Ok(_) => ",
    "\"a string\"; ",
    "/* closed */ ",
    "return ",
    "unsafe { ",
    "é(); ",
    "let s = \"q\\\"\"; ",
    "𠮷!(z); ",
    "日本(); ",
    // inside a brace- or bracket-delimited invocation of some other macro whose body starts like a key-value
    "tokio::select! { msg = rx.recv() => { ",
    "select! { r = fut => ",
    "let _v = vec![n = 1, ",
    "cfg_if! { a = b; ",
];
pub const AFTER: &[&str] = &[";", "", ",", " }", "; // done", " ; /* end */"];

pub const IDENTS: &[&str] = &["a", "b1", "user_id", "x", "_tmp", "ctx", "größe", "名前", "r", "refs", "ref_"];
pub const MODIFIERS: &[&str] = &["?", "debug", "%", "display", "err", "sval", "serde"];
pub const VALUES: &[&str] = &[
    "x",
    "42",
    "self.count",
    "s.len()",
    "\"v\"",
    "\"a;b,c\"",
    "cfg.name",
    "f(y)",
    "0",
    "x.y.z",
    "7usize",
    "a::B",
    "x as u64",
    "1.5",
    "v[0]",
    "\"[ref: 9] \"",
];
pub const TARGETS: &[&str] = &["t", "app::net", "a,b", "x;y", "my target", "[ref: 3] z", "ünï", "a:b", "C:\\\\", "a\\\\b"];
pub const BODY_PIECES: &[&str] = &[
    "hello",
    " ",
    "world",
    "{}",
    "{:?}",
    "{0}",
    "{name}",
    "\\\"quoted\\\"",
    "\\\\",
    "\\n",
    "naïve",
    "日本語",
    "[ref: 12] ",
    "ref = 3;",
    "{{}}",
    "a,b;c",
    "(x)",
    "info (x)",
    "'",
    "\\t",
    "😀",
    ":",
];
pub const PREFIXES: &[&str] = &[
    "[ref: 1] ",
    "[ref: 77]",
    "[ref: 0] ",
    "[ref: 4294967295] ",
    "[ref: 0000000042] ",
    "[ref: 4294967296] ",
    "[ref: 12345678901] ",
    "[ref: 18446744073709551616] ",
    "[ref: 340282366920938463463374607431768211456] ",
    "[ref:1] ",
    "[ref: abc] ",
    "[Ref: 1] ",
    " [ref: 1] ",
    "[ref: 1 ] ",
    "[ref: -1] ",
    "[ref: ] ",
    "[ref: １] ",
    "ref: 5 ",
    "[ref: 5",
    "(ref: 5) ",
    "\\\n        continued ",
    "\\\r\n    [ref: 8] after a continuation ",
];
pub const ARGS: &[&str] = &["1", "x", "name = 5", "s.len()", "\"lit\"", "a + b", "f(1, 2)", "\"[ref: 4] \""];
pub const REF_VALUES_VALID: &[&str] = &["1", "7", "42", "0", "007", "4294967295", "123456", "0000000009", "00000000007", "000000000000000000042", "0004294967295"];
pub const REF_VALUES_UNUSABLE: &[&str] = &[
    "x",
    "\"5\"",
    "4294967296",
    "1.5",
    "next_id()",
    "id",
    "99999999999",
    "\"abc\"",
    "18446744073709551615",
    "18446744073709551616",
    "184467440737095516150",
    "340282366920938463463374607431768211456",
    "00000000000000000000000000000000000000000000000001x",
    // digits followed by a type suffix inside an expression: not a literal (round-10 seed C13)
    "2u8 * shard",
    "4u32.pow(n)",
    "1usize + k",
    "3u64 << 2",
];

fn kv_strategy() -> BoxedStrategy<Kv>
{
    (
        select(IDENTS),
        prop_oneof![3 => Just(None), 2 => select(MODIFIERS).prop_map(Some)],
        prop_oneof![1 => Just(None), 4 => select(VALUES).prop_map(Some)],
    )
        .prop_map(|(k, m, v)| Kv {
            key: k.to_string(),
            modifier: m.map(|s| s.to_string()),
            value: v.map(|s| s.to_string()),
        })
        .boxed()
}

fn msg_body() -> BoxedStrategy<String>
{
    vec(select(BODY_PIECES), 0..6).prop_map(|v| v.concat()).boxed()
}

#[derive(Clone, Debug)]
pub struct StmtParams
{
    /// probability weights
    pub p_target: u32,
    pub p_kvs: u32,
    pub p_ref_kv: u32,
    pub p_prefix: u32,
    pub p_layout: u32,
    pub p_context: u32,
    pub p_preamble: u32,
    pub n_macros: usize,
}

impl Default for StmtParams
{
    fn default() -> Self
    {
        StmtParams {
            p_target: 35,
            p_kvs: 45,
            p_ref_kv: 25,
            p_prefix: 35,
            p_layout: 50,
            p_context: 50,
            p_preamble: 0,
            n_macros: 4,
        }
    }
}

fn weighted<T: Clone + std::fmt::Debug + 'static>(pct: u32, some: BoxedStrategy<T>, none: T) -> BoxedStrategy<T>
{
    let pct = pct.min(100);
    if pct == 0
    {
        return Just(none).boxed();
    }
    if pct == 100
    {
        return some;
    }
    prop_oneof![(100 - pct) => Just(none), pct => some].boxed()
}

pub fn directive_preamble() -> BoxedStrategy<Preamble>
{
    let kind = prop_oneof![Just(DirKind::Ignore), Just(DirKind::NoKvp)];
    let ws = select(&["", " ", "  ", "\t"][..]).prop_map(|s| s.to_string());
    let indent = select(&["    ", "", "\t", "        "][..]).prop_map(|s| s.to_string());
    // one blank line in 25 is a very long whitespace-only line (> 4 KiB, > 8 KiB): the directive still is on the
    // nearest non-blank line (round-10 seed C14: a bounded backwards search window)
    let blank = prop_oneof![
        24 => select(&["", " ", "\t", "    "][..]).prop_map(|s| s.to_string()),
        1 => prop_oneof![Just(4090usize), Just(4097), Just(4200), Just(8200), Just(16500)]
            .prop_flat_map(|n| prop_oneof![Just(" ".repeat(n)), Just("\t".repeat(n))]),
    ];
    let code = select(&["let z = 1;", "foo();", "}", "x += 1;", "bar(\"s\");"][..]).prop_map(|s| s.to_string());
    let other = select(
        &[
            "breadlog:ignore please",
            "xbreadlog:ignore",
            "breadlog:ignored",
            "breadlog: ignore",
            "breadlog:no-kvp x",
            "breadlog:nokvp",
            "breadlog",
            "ignore",
            "TODO breadlog:ignore",
            "breadlog:ignore breadlog:no-kvp",
        ][..],
    )
    .prop_map(|s| s.to_string());
    prop_oneof![
        6 => (kind.clone(), any::<bool>(), prop_oneof![3 => Just(0u32), 1 => any::<u32>()], ws.clone(), ws.clone(), indent, vec(blank, 0..3))
            .prop_map(|(kind, block, case_mask, ws_before, ws_after, indent, blanks)| Preamble::Directive { kind, block, case_mask, ws_before, ws_after, indent, blanks }),
        2 => (other, any::<bool>()).prop_map(|(text, block)| Preamble::OtherText { text, block }),
        1 => (kind.clone(), code.clone()).prop_map(|(kind, code)| Preamble::ThenCode { kind, code }),
        1 => (kind.clone(), select(&["// note", "/* note */", "// breadlog", "/// doc"][..])).prop_map(|(kind, c)| Preamble::ThenComment { kind, comment: c.to_string() }),
        1 => (kind, code, any::<bool>()).prop_map(|(kind, code, block)| Preamble::TrailingOnCode { kind, code, block }),
    ]
    .boxed()
}

pub fn stmt(p: &StmtParams) -> BoxedStrategy<StmtSpec>
{
    let target = weighted(
        p.p_target,
        select(TARGETS).prop_map(|s| Some(s.to_string())).boxed(),
        None,
    );
    let kvs = weighted(p.p_kvs, vec(kv_strategy(), 1..=3).boxed(), Vec::new());
    let ref_kv = weighted(
        p.p_ref_kv,
        (
            0usize..4,
            prop_oneof![3 => select(REF_VALUES_VALID), 2 => select(REF_VALUES_UNUSABLE)],
            prop_oneof![5 => Just(None), 1 => select(MODIFIERS).prop_map(|m| Some(m.to_string()))],
        )
            .prop_map(|(pos, v, m)| Some(((pos, v.to_string()), m)))
            .boxed(),
        None,
    );
    let prefix = weighted(p.p_prefix, select(PREFIXES).prop_map(|s| s.to_string()).boxed(), String::new());
    let gaps = weighted(p.p_layout, vec(0usize..GAPS.len(), 1..8).boxed(), vec![0]);
    let before = weighted(p.p_context, (0usize..BEFORE.len()).boxed(), 0);
    let after = weighted(p.p_context, (0usize..AFTER.len()).boxed(), 0);
    let preamble = weighted(p.p_preamble, directive_preamble(), Preamble::None);
    let trailing_dir = if p.p_preamble > 0
    {
        prop_oneof![9 => Just(None), 1 => Just(Some(DirKind::Ignore)), 1 => Just(Some(DirKind::NoKvp))].boxed()
    }
    else
    {
        Just(None).boxed()
    };
    (
        (0usize..p.n_macros.max(1), any::<bool>(), target, kvs, ref_kv),
        (prefix, msg_body(), vec(select(ARGS).prop_map(|s| s.to_string()), 0..3), any::<bool>()),
        (gaps, before, after, preamble, trailing_dir, weighted(p.p_layout / 6, (1u8..NAME_GAPS.len() as u8).boxed(), 0u8), weighted(p.p_layout / 6, (1u8..NAME_GAPS.len() as u8).boxed(), 0u8)),
    )
        .prop_map(
            |(
                (macro_idx, qualified, target, kvs, ref_kv),
                (msg_prefix, msg_body, args, trailing_comma),
                (gaps, before, after, preamble, trailing_directive, name_gap, bang_gap),
            )| {
                let (ref_kv, ref_modifier) = match ref_kv
                {
                    Some((kv, m)) => (Some(kv), m),
                    None => (None, None),
                };
                StmtSpec {
                    macro_idx,
                    qualified,
                    target,
                    kvs,
                    ref_kv,
                    ref_modifier,
                    msg_prefix,
                    msg_body,
                    args,
                    trailing_comma,
                    gaps,
                    before,
                    after,
                    preamble,
                    trailing_directive,
                    name_gap,
                    bang_gap,
                }
            },
        )
        .boxed()
}

// ---------------------------------------------------------------- decoys (C11)

#[derive(Clone, Debug, PartialEq, Eq, Hash, Serialize, Deserialize)]
pub enum Decoy
{
    LineComment(String),      // "// " "/// " "//! " prefix + statement text
    BlockComment(String),     // "/* … */" single line
    BlockCommentMulti(String), // spread over lines
    Unconfigured(String),     // full statement text with a name that is not configured
    NoLiteral(String),        // configured name without a literal message
    /// configured name with key-values but no message (`info!(a = 1);`): only
    /// used by the fixed known-finding probe, never generated
    NoLiteralKv(String),
    InString(String),         // `let _s = "…info!(\"x\")…";`
    /// configured name, target given as a constant / path / call instead of a string literal, then a
    /// literal message. Not canonical: Breadlog may leave it alone, but IF it treats it as a statement
    /// the reference has to go where it goes for a literal target (checked by `optional_window`).
    NonLiteralTarget(String),
}

impl Decoy
{
    pub fn text(&self) -> &str
    {
        match self
        {
            Decoy::LineComment(s)
            | Decoy::BlockComment(s)
            | Decoy::BlockCommentMulti(s)
            | Decoy::Unconfigured(s)
            | Decoy::NoLiteral(s)
            | Decoy::NoLiteralKv(s)
            | Decoy::InString(s)
            | Decoy::NonLiteralTarget(s) => s,
        }
    }
    pub fn kind(&self) -> &'static str
    {
        match self
        {
            Decoy::LineComment(_) => "line-comment",
            Decoy::BlockComment(_) => "block-comment",
            Decoy::BlockCommentMulti(_) => "block-comment-multi",
            Decoy::Unconfigured(_) => "unconfigured",
            Decoy::NoLiteral(_) => "no-literal",
            Decoy::NoLiteralKv(_) => "no-literal-kv",
            Decoy::InString(_) => "in-string",
            Decoy::NonLiteralTarget(_) => "non-literal-target",
        }
    }
}

/// Decoys are built for a given configuration (they need configured names).
pub fn decoy(cfg: &ConfigSpec) -> BoxedStrategy<Decoy>
{
    let names: Vec<String> = cfg.macros.iter().map(|m| m.name.clone()).collect();
    let quals: Vec<String> = cfg.macros.iter().map(|m| format!("{}::{}", m.module, m.name)).collect();
    let mut callable: Vec<String> = names.clone();
    callable.extend(quals.clone());
    let configured_names: Vec<String> = names.clone();
    let is_configured = move |n: &str| {
        configured_names.iter().any(|c| c == n)
    };
    // unconfigured names derived from configured ones
    let mut uncfg: Vec<String> = Vec::new();
    for m in &cfg.macros
    {
        for cand in [
            format!("x{}", m.name),
            format!("{}2", m.name),
            format!("{}s", m.name),
            format!("{}_", m.name),
            format!("_{}", m.name),
            format!("other::{}", m.name),
            format!("{}2::{}", m.module, m.name),
            format!("x::{}::{}", m.module, m.name),
            format!("{}::x{}", m.module, m.name),
            format!("{}::{}x", m.module, m.name),
            format!("для{}", m.name),
            format!("журнал::{}", m.name),
            format!("日志::{}::{}", m.module, m.name),
        ]
        {
            let last = cand.rsplit("::").next().unwrap_or("").to_string();
            let qualified_ok = cfg
                .macros
                .iter()
                .any(|c| cand == c.name || cand == format!("{}::{}", c.module, c.name));
            if !qualified_ok && !(is_configured(&last) && !cand.contains("::"))
            {
                uncfg.push(cand);
            }
        }
    }
    for m in &cfg.macros
    {
        let want = m.module.len() + 2;
        for pad in 0..=3usize
        {
            if want >= pad && (want - pad) % 2 == 0 && want - pad >= 2
            {
                // "é" is 2 bytes: a character straddles most byte offsets inside the prefix
                for (front, back) in [(true, false), (false, true)]
                {
                    let mut pfx = String::new();
                    if front
                    {
                        pfx.push_str(&"_".repeat(pad));
                    }
                    pfx.push_str(&"é".repeat((want - pad) / 2));
                    if back
                    {
                        pfx.push_str(&"_".repeat(pad));
                    }
                    if pfx.chars().next().map(|c| c.is_alphabetic() || c == '_').unwrap_or(false)
                    {
                        uncfg.push(format!("{}{}", pfx, m.name));
                    }
                }
            }
        }
        if want >= 3
        {
            uncfg.push(format!("{}{}", "日".repeat(want / 3) + &"x".repeat(want % 3), m.name));
        }
    }
    uncfg.retain(|c| !cfg.macros.iter().any(|m| *c == m.name || *c == format!("{}::{}", m.module, m.name)));
    for n in ["println", "format", "debug_assert", "write", "panic"]
    {
        if !names.iter().any(|c| c == n)
        {
            uncfg.push(n.to_string());
        }
    }
    let call = select(callable.clone());
    let msg = select(&["x", "hello {}", "[ref: 1] y", "a \\\"b\\\" c", "z;,"][..]);
    let simple_stmt = (call.clone(), msg.clone()).prop_map(|(c, m)| format!("{}!(\"{}\")", c, m));
    let kv_stmt = (call.clone(), msg.clone()).prop_map(|(c, m)| format!("{}!(target: \"t\", a = 1; \"{}\", 5)", c, m));
    let any_stmt = prop_oneof![3 => simple_stmt.clone(), 1 => kv_stmt];
    let line_prefix = select(&["// ", "//", "/// ", "//! ", "// see: ", "    // ", "// old\r", "// a\rb ", "let q = '\"'; // \"", "let q = b'\"';\n    // it said \""][..]);
    prop_oneof![
        3 => (line_prefix, any_stmt.clone()).prop_map(|(p, s)| Decoy::LineComment(format!("{}{}", p, s))),
        2 => (select(&["/* ", "/** ", "/*", "/*! ", "let q = '\"'; /* \""][..]), any_stmt.clone()).prop_map(|(p, s)| Decoy::BlockComment(format!("{}{} */", p, s))),
        2 => any_stmt.clone().prop_map(|s| Decoy::BlockCommentMulti(format!("/*\n * before\n   {};\n * after\n */", s))),
        3 => (select(uncfg), msg.clone()).prop_map(|(n, m)| Decoy::Unconfigured(format!("{}!(\"{}\");", n, m))),
        2 => (call.clone(), select(&["", "x", "target: \"t\"", "FMT, 1", "x.y", "&s", "concat!(a)"][..]))
            .prop_map(|(c, a)| Decoy::NoLiteral(format!("{}!({});", c, a))),
        2 => (call.clone(), select(&["LOG_TARGET", "crate::logging::TARGET", "pick_target(verbose, \"fallback\")", "module_path!()", "tf(n, \"[ref: 41] in the target\")", "T"][..]), select(&["Server started", "x {}", "", "[ref: 9] has one"][..]))
            .prop_map(|(c, t, m)| Decoy::NonLiteralTarget(format!("{}!(target: {}, \"{}\");", c, t, m))),
        2 => (call, select(&["say ", "", "a \\\\ \\\" ", "x\\\" "][..]), select(&["hi", "[ref: 2] z", ""][..]))
            .prop_map(|(c, pre, m)| Decoy::InString(format!("let _s = \"{}{}!(\\\"{}\\\")\";", pre, c, m))),
    ]
    .boxed()
}

// ---------------------------------------------------------------- files

#[derive(Clone, Debug, PartialEq, Eq, Hash, Serialize, Deserialize)]
pub enum Item
{
    Stmt(StmtSpec),
    /// a statement placed on the same line directly after the previous item (e.g. after the last line of a multi-line statement)
    StmtSameLine(StmtSpec),
    Decoy(Decoy),
    /// decoy placed on the same line directly after the previous item
    DecoySameLine(Decoy),
    Filler(String),
    Blank(usize),
    /// this many lines of ordinary code (large files: nothing about a statement may depend on the file's size)
    Pad(u32),
}

#[derive(Clone, Copy, Debug, PartialEq, Eq, Hash, Serialize, Deserialize)]
pub enum Eol
{
    Lf,
    Crlf,
    Mixed,
}

#[derive(Clone, Debug, PartialEq, Eq, Hash, Serialize, Deserialize)]
pub struct FileSpec
{
    pub items: Vec<Item>,
    pub eol: Eol,
    pub final_newline: bool,
    pub bom: bool,
}

pub const FILLERS: &[&str] = &[
    "fn helper() {",
    "}",
    "let x = 5;",
    "x += 1;",
    "// plain comment",
    "foo(bar);",
    "println!(\"p {}\", 1);",
    "let s = \"text\";",
    "    let t = (1, 2);",
    "use log::info;",
    "match v {",
    "    _ => (),",
    "/* block */",
    "let c = 'c';",
    "// \u{130}\u{130}\u{130}\u{130}\u{130}\u{130}\u{130}\u{130}\u{130}\u{130}\u{130}\u{130} \u{130}STANBUL",
    "let _city = \"\u{130}\u{130}\u{130}\u{130}\u{130}\u{130}\u{130}\u{130}\u{130}\u{130}\u{130}\u{23a}\u{23e}\";",
    "let tab = \"\\t\";\tlet u = 1;",
    "let e = \"é\"; // naïve",
    "#[derive(Debug)]",
    "struct S { a: u8 }",
];

/// Lines of real code usable as neutral filler: no macro invocation, balanced
/// plain string quotes, no comment delimiters, no raw strings / char-literal quotes.
pub fn corpus_filler_lines() -> &'static Vec<String>
{
    static LINES: std::sync::OnceLock<Vec<String>> = std::sync::OnceLock::new();
    LINES.get_or_init(|| {
        let mut out: Vec<String> = Vec::new();
        for (i, (_, bytes)) in crate::gen_raw::corpus().iter().enumerate()
        {
            if i % 3 != 0
            {
                continue;
            }
            if let Ok(t) = std::str::from_utf8(bytes)
            {
                for line in t.lines().step_by(7)
                {
                    let l = line.trim_end();
                    if l.len() < 3 || l.len() > 110
                    {
                        continue;
                    }
                    let quotes = l.matches('"').count();
                    if l.contains('!')
                        || l.contains("/*")
                        || l.contains("*/")
                        || l.contains("//")
                        || l.contains('\\')
                        || l.contains("r#")
                        || l.contains('\'')
                        || quotes % 2 != 0
                        || l.contains("breadlog")
                    {
                        continue;
                    }
                    // must not end in an identifier character glued to what follows? (a newline always follows)
                    out.push(l.to_string());
                    if out.len() >= 1500
                    {
                        return out;
                    }
                }
            }
        }
        if out.is_empty()
        {
            out.push("let y = 2;".to_string());
        }
        out
    })
}

/// Mostly a handful of lines; rarely enough to make the file 0.1 - 1.5 MB, very rarely 3 - 6 MB.
fn pad_item() -> BoxedStrategy<Item>
{
    prop_oneof![
        150 => (1u32..6).prop_map(Item::Pad),
        3 => (1_500u32..22_000).prop_map(Item::Pad),
        // several MB of ordinary code (about 75 bytes per line)
        1 => (40_000u32..80_000).prop_map(Item::Pad),
    ]
    .boxed()
}

/// `name!(target: <not a string literal>, "<msg>");` for a configured name (see `Decoy::NonLiteralTarget`).
pub fn non_literal_target_item(cfg: &ConfigSpec) -> BoxedStrategy<Decoy>
{
    let mut callable: Vec<String> = cfg.macros.iter().map(|m| m.name.clone()).collect();
    callable.extend(cfg.macros.iter().map(|m| format!("{}::{}", m.module, m.name)));
    (
        select(callable),
        select(&["LOG_TARGET", "crate::logging::TARGET", "pick_target(verbose, \"fallback\")", "module_path!()", "tf(n, \"[ref: 41] in the target\")", "T"][..]),
        select(&["Server started", "x {}", "", "[ref: 9] has one"][..]),
    )
        .prop_map(|(c, t, m)| Decoy::NonLiteralTarget(format!("{}!(target: {}, \"{}\");", c, t, m)))
        .boxed()
}

pub fn file_spec(cfg: &ConfigSpec, p: &StmtParams, max_items: usize, decoys: bool) -> BoxedStrategy<FileSpec>
{
    let mut sp = p.clone();
    sp.n_macros = cfg.macros.len();
    let st = stmt(&sp);
    let real_lines = corpus_filler_lines();
    let n_real = real_lines.len();
    let real = (0..n_real).prop_map(move |i| Item::Filler(real_lines[i].clone()));
    let item: BoxedStrategy<Item> = if decoys
    {
        prop_oneof![
            5 => st.clone().prop_map(Item::Stmt),
            1 => st.prop_map(Item::StmtSameLine),
            4 => decoy(cfg).prop_map(Item::Decoy),
            1 => decoy(cfg).prop_map(Item::DecoySameLine),
            2 => select(FILLERS).prop_map(|s| Item::Filler(s.to_string())),
            1 => real,
            1 => (1usize..3).prop_map(Item::Blank),
            1 => pad_item(),
        ]
        .boxed()
    }
    else
    {
        prop_oneof![
            12 => st.clone().prop_map(Item::Stmt),
            2 => st.prop_map(Item::StmtSameLine),
            4 => select(FILLERS).prop_map(|s| Item::Filler(s.to_string())),
            2 => real,
            2 => (1usize..3).prop_map(Item::Blank),
            2 => pad_item(),
            1 => non_literal_target_item(cfg).prop_map(Item::Decoy),
        ]
        .boxed()
    };
    (
        vec(item, 1..=max_items),
        prop_oneof![4 => Just(Eol::Lf), 2 => Just(Eol::Crlf), 1 => Just(Eol::Mixed)],
        prop_oneof![3 => Just(true), 1 => Just(false)],
        prop_oneof![9 => Just(false), 1 => Just(true)],
    )
        .prop_map(|(items, eol, final_newline, bom)| FileSpec {
            items,
            eol,
            final_newline,
            bom,
        })
        .boxed()
}

// ---------------------------------------------------------------- rendering + model

#[derive(Clone, Debug, PartialEq, Eq, Serialize, Deserialize)]
pub enum Expect
{
    /// not an entry at all (ignored by directive)
    Ignored,
    HasRef(u32),
    Unusable,
    Missing
    {
        kind: TokKind,
        /// exact expected offset (message style) — for key-value style the
        /// offset is checked through the squashed token sequence instead
        msg_offset: usize,
    },
}

#[derive(Clone, Debug)]
pub struct StmtInfo
{
    pub index: usize,
    /// byte span of the statement `name!( … )` in the rendered file
    pub start: usize,
    pub end: usize,
    /// offset of `(`
    pub paren: usize,
    /// offset of the first byte of the message literal's content
    pub msg_offset: usize,
    /// offset of the ref key-value's value, when there is one
    pub ref_value_offset: Option<usize>,
    pub expect: Expect,
    pub spec: StmtSpec,
    /// start of the line the statement starts on
    pub line_start: usize,
    pub directive_ignore: bool,
    pub directive_no_kvp: bool,
    /// the same statement with `ref = N<sep>` where the model wants it (key-value style), squashed
    pub expected_kv_squash_prefix: String,
    pub has_target: bool,
}

#[derive(Clone, Debug)]
pub struct Rendered
{
    pub text: String,
    pub stmts: Vec<StmtInfo>,
    /// (start, end, kind) of decoys
    pub decoys: Vec<(usize, usize, &'static str)>,
}

fn apply_case(s: &str, mask: u32) -> String
{
    s.chars()
        .enumerate()
        .map(|(i, c)| if i < 32 && (mask >> i) & 1 == 1 { c.to_ascii_uppercase() } else { c })
        .collect()
}

struct GapIter<'a>
{
    gaps: &'a [usize],
    pos: usize,
}

impl<'a> GapIter<'a>
{
    fn next(&mut self) -> &'static str
    {
        if self.gaps.is_empty()
        {
            return "";
        }
        let g = self.gaps[self.pos % self.gaps.len()] % GAPS.len();
        self.pos += 1;
        GAPS[g]
    }
}

/// Render one statement (without preamble/context). Returns text and offsets
/// relative to the statement start: (text, paren, msg_offset, ref_value_offset, kv_zone_start)
pub fn render_stmt_text(s: &StmtSpec, cfg: &ConfigSpec) -> (String, usize, usize, Option<usize>)
{
    let m = &cfg.macros[s.macro_idx % cfg.macros.len()];
    let mut t = String::new();
    if s.qualified
    {
        t.push_str(&m.module);
        t.push_str("::");
    }
    t.push_str(&m.name);
    t.push_str(NAME_GAPS[s.name_gap as usize % NAME_GAPS.len()]);
    t.push('!');
    t.push_str(NAME_GAPS[s.bang_gap as usize % NAME_GAPS.len()]);
    let paren = t.len();
    t.push('(');
    let mut g = GapIter { gaps: &s.gaps, pos: 0 };
    t.push_str(g.next());
    if let Some(tg) = &s.target
    {
        t.push_str("target:");
        let sp = g.next();
        // keep `target:` and its literal separated by plain whitespace only
        t.push_str(if sp.contains('/') { " " } else { sp });
        t.push('"');
        t.push_str(tg);
        t.push('"');
        t.push(',');
        t.push_str(g.next());
    }
    // key-values, with the ref entry spliced in
    let mut kvs: Vec<(Kv, bool)> = s.kvs.iter().cloned().map(|k| (k, false)).collect();
    if let Some((pos, val)) = &s.ref_kv
    {
        let p = (*pos).min(kvs.len());
        kvs.insert(
            p,
            (
                Kv {
                    key: "ref".to_string(),
                    modifier: s.ref_modifier.clone(),
                    value: Some(val.clone()),
                },
                true,
            ),
        );
    }
    let mut ref_value_offset = None;
    let n = kvs.len();
    for (i, (kv, is_ref)) in kvs.iter().enumerate()
    {
        t.push_str(&kv.key);
        if let Some(md) = &kv.modifier
        {
            t.push(':');
            t.push_str(md);
        }
        if let Some(v) = &kv.value
        {
            t.push_str(g.next());
            t.push('=');
            t.push_str(g.next());
            if *is_ref
            {
                ref_value_offset = Some(t.len());
            }
            t.push_str(v);
        }
        t.push_str(g.next());
        t.push(if i + 1 == n { ';' } else { ',' });
        t.push_str(g.next());
    }
    t.push('"');
    let msg_offset = t.len();
    t.push_str(&s.msg_prefix);
    t.push_str(&s.msg_body);
    t.push('"');
    for a in &s.args
    {
        t.push_str(g.next());
        t.push(',');
        t.push_str(g.next());
        t.push_str(a);
    }
    if s.trailing_comma
    {
        t.push(',');
    }
    t.push_str(g.next());
    t.push(')');
    (t, paren, msg_offset, ref_value_offset)
}

fn render_preamble(p: &Preamble, out: &mut Vec<String>)
{
    match p
    {
        Preamble::None => (),
        Preamble::Directive {
            kind,
            block,
            case_mask,
            ws_before,
            ws_after,
            indent,
            blanks,
        } =>
        {
            let txt = apply_case(kind.text(), *case_mask);
            if *block
            {
                out.push(format!("{}/*{}{}{}*/", indent, ws_before, txt, ws_after));
            }
            else
            {
                out.push(format!("{}//{}{}{}", indent, ws_before, txt, ws_after));
            }
            for b in blanks
            {
                out.push(b.clone());
            }
        },
        Preamble::OtherText { text, block } =>
        {
            if *block
            {
                out.push(format!("    /* {} */", text));
            }
            else
            {
                out.push(format!("    // {}", text));
            }
        },
        Preamble::ThenCode { kind, code } =>
        {
            out.push(format!("    // {}", kind.text()));
            out.push(format!("    {}", code));
        },
        Preamble::ThenComment { kind, comment } =>
        {
            out.push(format!("    // {}", kind.text()));
            out.push(format!("    {}", comment));
        },
        Preamble::TrailingOnCode { kind, code, block } =>
        {
            if *block
            {
                out.push(format!("    {} /* {} */", code, kind.text()));
            }
            else
            {
                out.push(format!("    {} // {}", code, kind.text()));
            }
        },
    }
}

/// Independent directive scanner: the comment text found on a line, if any
/// (first `//…` or `/*…*/`, whichever starts first), lower-cased and trimmed.
pub fn comment_text_on_line(line: &str) -> Option<String>
{
    let l = line.trim();
    let a = l.find("//");
    let b = l.find("/*");
    let take_line = match (a, b)
    {
        (Some(x), Some(y)) => x <= y,
        (Some(_), None) => true,
        (None, Some(_)) => false,
        (None, None) => return None,
    };
    if take_line
    {
        let t = &l[a.unwrap() + 2..];
        if t.is_empty()
        {
            return None;
        }
        Some(t.to_lowercase().trim().to_string())
    }
    else
    {
        let s = b.unwrap() + 2;
        let e = l.rfind("*/")?;
        if e <= s
        {
            // "/**/" or no closing on this line; a later "//" could still match
            if let Some(x) = a
            {
                let t = &l[x + 2..];
                if !t.is_empty()
                {
                    return Some(t.to_lowercase().trim().to_string());
                }
            }
            return None;
        }
        Some(l[s..e].to_lowercase().trim().to_string())
    }
}

/// Which directive (if any) governs a statement starting at byte `pos`.
pub fn directive_for(text: &str, pos: usize) -> Option<String>
{
    let line_start = text[..pos].rfind('\n').map(|p| p + 1).unwrap_or(0);
    if line_start == 0
    {
        return None;
    }
    let above = &text[..line_start - 1];
    for line in above.rsplit('\n')
    {
        let l = line.trim();
        if l.is_empty()
        {
            continue;
        }
        return comment_text_on_line(l);
    }
    None
}

fn is_valid_u32_digits(v: &str) -> Option<u32>
{
    if v.is_empty() || !v.bytes().all(|b| b.is_ascii_digit())
    {
        return None;
    }
    v.parse::<u64>().ok().and_then(|n| if n <= u32::MAX as u64 { Some(n as u32) } else { None })
}

pub fn render_file(f: &FileSpec, cfg: &ConfigSpec) -> Rendered
{
    // Build with '\n' first, keeping offsets; then convert line endings while remapping offsets.
    let mut text = String::new();
    if f.bom
    {
        text.push('\u{feff}');
    }
    struct Raw
    {
        start: usize,
        paren: usize,
        msg: usize,
        refv: Option<usize>,
        end: usize,
        spec: StmtSpec,
    }
    let mut raws: Vec<Raw> = Vec::new();
    let mut decoys: Vec<(usize, usize, &'static str)> = Vec::new();
    let mut at_line_start = true;
    for it in &f.items
    {
        match it
        {
            Item::StmtSameLine(s0) =>
            {
                // join to the previous line unless that line ends in a line comment / is empty
                let can_join = text.ends_with('\n') && {
                    let prev_line_start = text[..text.len() - 1].rfind('\n').map(|p| p + 1).unwrap_or(0);
                    let prev = &text[prev_line_start..text.len() - 1];
                    !prev.contains("//") && !prev.trim().is_empty()
                };
                let mut s = s0.clone();
                s.preamble = Preamble::None;
                s.trailing_directive = None;
                if can_join
                {
                    text.pop();
                    text.push(' ');
                    s.before = 1; // nothing between the separator and the statement
                }
                text.push_str(BEFORE[s.before % BEFORE.len()]);
                let (st, paren, msg, refv) = render_stmt_text(&s, cfg);
                let start = text.len();
                text.push_str(&st);
                let end = text.len();
                text.push_str(AFTER[s.after % AFTER.len()]);
                text.push('\n');
                at_line_start = true;
                raws.push(Raw {
                    start,
                    paren: start + paren,
                    msg: start + msg,
                    refv: refv.map(|r| start + r),
                    end,
                    spec: s,
                });
            },
            Item::Stmt(s) =>
            {
                let mut pre = Vec::new();
                render_preamble(&s.preamble, &mut pre);
                if !pre.is_empty() && !at_line_start
                {
                    text.push('\n');
                }
                for l in pre
                {
                    text.push_str(&l);
                    text.push('\n');
                    at_line_start = true;
                }
                let _ = at_line_start;
                text.push_str(BEFORE[s.before % BEFORE.len()]);
                let (st, paren, msg, refv) = render_stmt_text(s, cfg);
                let start = text.len();
                text.push_str(&st);
                let end = text.len();
                text.push_str(AFTER[s.after % AFTER.len()]);
                if let Some(k) = s.trailing_directive
                {
                    let last_line = st.rsplit('\n').next().unwrap_or("");
                    if !last_line.contains('/') && !AFTER[s.after % AFTER.len()].contains('/')
                    {
                        text.push_str(" // ");
                        text.push_str(k.text());
                    }
                }
                text.push('\n');
                at_line_start = true;
                raws.push(Raw {
                    start,
                    paren: start + paren,
                    msg: start + msg,
                    refv: refv.map(|r| start + r),
                    end,
                    spec: s.clone(),
                });
            },
            Item::Decoy(d) =>
            {
                let start = text.len();
                text.push_str(d.text());
                decoys.push((start, text.len(), d.kind()));
                text.push('\n');
                at_line_start = true;
            },
            Item::DecoySameLine(d) =>
            {
                // join to the previous line (drop its newline) unless that line ends in a line comment
                let can_join = text.ends_with('\n') && {
                    let prev_line_start = text[..text.len() - 1].rfind('\n').map(|p| p + 1).unwrap_or(0);
                    let prev = &text[prev_line_start..text.len() - 1];
                    !prev.contains("//") && !prev.is_empty()
                };
                if can_join
                {
                    text.pop();
                    text.push(' ');
                }
                let start = text.len();
                text.push_str(d.text());
                decoys.push((start, text.len(), d.kind()));
                text.push('\n');
                at_line_start = true;
            },
            Item::Filler(s) =>
            {
                text.push_str(s);
                text.push('\n');
                at_line_start = true;
            },
            Item::Blank(n) =>
            {
                for _ in 0..*n
                {
                    text.push('\n');
                }
                at_line_start = true;
            },
            Item::Pad(n) =>
            {
                for i in 0..*n
                {
                    text.push_str(&format!("    let pad_{:06} = compute(pad_{:06}, {}); // ordinary line {}\n", i, i.saturating_sub(1), i % 97, i));
                }
                at_line_start = true;
            },
        }
    }
    if !f.final_newline && text.ends_with('\n')
    {
        text.pop();
    }
    // line ending conversion with offset remapping
    let (text, map): (String, Box<dyn Fn(usize) -> usize>) = match f.eol
    {
        Eol::Lf => (text, Box::new(|o| o)),
        Eol::Crlf | Eol::Mixed =>
        {
            let mixed = f.eol == Eol::Mixed;
            let bytes = text.as_bytes();
            let mut out = Vec::with_capacity(bytes.len() + 64);
            let mut shift_at: Vec<usize> = Vec::new(); // original offsets of '\n' that got a '\r'
            let mut nl = 0usize;
            let mut i = 0;
            while i < bytes.len()
            {
                if bytes[i] == b'\n'
                {
                    let already = i > 0 && bytes[i - 1] == b'\r';
                    if !already && (!mixed || nl % 2 == 0)
                    {
                        out.push(b'\r');
                        shift_at.push(i);
                    }
                    nl += 1;
                }
                out.push(bytes[i]);
                i += 1;
            }
            let s = String::from_utf8(out).unwrap();
            (
                s,
                Box::new(move |o: usize| {
                    // number of inserted '\r' before offset o (an offset AT a '\n' stays before the '\r')
                    let c = shift_at.partition_point(|&p| p < o);
                    o + c
                }),
            )
        },
    };
    let structured = cfg.is_structured();
    let mut stmts = Vec::new();
    for (index, r) in raws.into_iter().enumerate()
    {
        let start = map(r.start);
        let paren = map(r.paren);
        let msg = map(r.msg);
        let end = map(r.end);
        let refv = r.refv.map(|x| map(x));
        let dir = directive_for(&text, start);
        let dir_paren = directive_for(&text, paren);
        let directive_ignore = dir.as_deref() == Some("breadlog:ignore");
        let directive_no_kvp = dir_paren.as_deref() == Some("breadlog:no-kvp");
        let s = &r.spec;
        let expect = if directive_ignore
        {
            Expect::Ignored
        }
        else if structured && !directive_no_kvp
        {
            match &s.ref_kv
            {
                Some((_, v)) => match is_valid_u32_digits(v)
                {
                    Some(n) => Expect::HasRef(n),
                    None => Expect::Unusable,
                },
                None => Expect::Missing {
                    kind: if s.kvs.is_empty() { TokKind::KvSemi } else { TokKind::KvComma },
                    msg_offset: msg,
                },
            }
        }
        else
        {
            match crate::oracle::valid_token(&format!("{}{}", s.msg_prefix, s.msg_body))
            {
                Some(n) => Expect::HasRef(n),
                None => Expect::Missing {
                    kind: TokKind::Msg,
                    msg_offset: msg,
                },
            }
        };
        // expected squashed statement prefix up to and including where `ref = N sep` goes:
        // name!( [target:"…",]
        let stmt_text = &text[start..end];
        let sq = crate::oracle::squash(stmt_text);
        let head_len = {
            let m = &cfg.macros[s.macro_idx % cfg.macros.len()];
            let mut h = String::new();
            if s.qualified
            {
                h.push_str(&m.module);
                h.push_str("::");
            }
            h.push_str(&m.name);
            h.push_str("!(");
            if let Some(t) = &s.target
            {
                h.push_str(&format!("target:\"{}\",", t));
            }
            h
        };
        debug_assert!(sq.starts_with(&head_len), "squash {:?} head {:?}", sq, head_len);
        let line_start = text[..start].rfind('\n').map(|p| p + 1).unwrap_or(0);
        stmts.push(StmtInfo {
            index,
            start,
            end,
            paren,
            msg_offset: msg,
            ref_value_offset: refv,
            expect,
            has_target: s.target.is_some(),
            spec: r.spec.clone(),
            line_start,
            directive_ignore,
            directive_no_kvp,
            expected_kv_squash_prefix: head_len,
        });
    }
    let decoys = decoys.into_iter().map(|(a, b, k)| (map(a), map(b), k)).collect();
    Rendered { text, stmts, decoys }
}

/// Is the known structured-mode deviation D8 in play for this statement
/// (reference must go after a target argument)?
pub fn stmt_summary(s: &StmtInfo) -> String
{
    format!("stmt#{} span {}..{} expect {:?}", s.index, s.start, s.end, s.expect)
}

// ---------------------------------------------------------------- trees

#[derive(Clone, Debug, PartialEq, Eq, Hash, Serialize, Deserialize)]
pub enum LockSpec
{
    Absent,
    Valid(u32),
    Raw(String),
}

pub const LOCK_HEADER: &str = "# AUTO-GENERATED FILE - DON'T EDIT\n# If you would like to recalculate the next reference from your code, delete this file and\n# run Breadlog.\n\n";

impl LockSpec
{
    pub fn content(&self) -> Option<String>
    {
        match self
        {
            LockSpec::Absent => None,
            LockSpec::Valid(n) => Some(format!("{}next_reference_id: {}\n", LOCK_HEADER, n)),
            LockSpec::Raw(s) => Some(s.clone()),
        }
    }
}

/// Parse a lock file the way a YAML reader would for the one documented key
/// (independent of Breadlog): the last `next_reference_id: <u32>` line.
pub fn parse_lock(text: &str) -> Option<u32>
{
    let mut found = None;
    let mut lines = 0;
    for line in text.lines()
    {
        let l = line.trim();
        if l.is_empty() || l.starts_with('#') || l == "---"
        {
            continue;
        }
        lines += 1;
        if let Some(v) = l.strip_prefix("next_reference_id:")
        {
            found = v.trim().parse::<u32>().ok();
        }
        else
        {
            return None;
        }
    }
    if lines == 1
    {
        found
    }
    else
    {
        None
    }
}

/// A project tree made of modelled files: config + lock + src/<files>.
#[derive(Clone, Debug, PartialEq, Eq, Hash, Serialize, Deserialize)]
pub struct ModelTree
{
    pub cfg: ConfigSpec,
    pub files: Vec<(String, FileSpec)>,
    pub lock: LockSpec,
}

pub const FILE_NAMES: &[&str] = &["a.rs", "b.rs", "sub/c.rs", "sub/deep/d.rs", "e.rs", "z/y/x/w.rs", "main.rs", "lib.rs"];

impl ModelTree
{
    pub fn render(&self) -> (Tree, Vec<(String, Rendered)>)
    {
        let mut tree = Tree::new();
        tree.insert("Breadlog.yaml".to_string(), Node::File(self.cfg.yaml().into_bytes()));
        if let Some(l) = self.lock.content()
        {
            tree.insert("Breadlog.lock".to_string(), Node::File(l.into_bytes()));
        }
        tree.insert("src".to_string(), Node::Dir);
        let mut rendered = Vec::new();
        for (name, f) in &self.files
        {
            let r = render_file(f, &self.cfg);
            let rel = format!("src/{}", name);
            tree.insert(rel.clone(), Node::File(r.text.clone().into_bytes()));
            rendered.push((rel, r));
        }
        (tree, rendered)
    }
}

pub fn model_tree(structured: StructSel, p: StmtParams, max_files: usize, max_items: usize, decoys: bool) -> BoxedStrategy<ModelTree>
{
    config_spec(structured.strategy())
        .prop_flat_map(move |cfg| {
            let fs = file_spec(&cfg, &p, max_items, decoys);
            (Just(cfg), vec(fs, 1..=max_files))
        })
        .prop_map(|(cfg, files)| ModelTree {
            cfg,
            files: files
                .into_iter()
                .enumerate()
                .map(|(i, f)| (FILE_NAMES[i % FILE_NAMES.len()].to_string(), f))
                .collect(),
            lock: LockSpec::Absent,
        })
        .boxed()
}
