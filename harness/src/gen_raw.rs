//! Raw content sources for the properties quantified over arbitrary file
//! contents: real code corpus, rendered model files, literal text, and
//! byte/char/token-level mutations of those.

use crate::gen::{file_spec, ConfigSpec, FileSpec, LockSpec, MacroCfg, StmtParams, StructSel};
use crate::sandbox::{Node, Tree};
use proptest::collection::vec;
use proptest::prelude::*;
use serde::{Deserialize, Serialize};
use std::sync::OnceLock;

static CORPUS: OnceLock<Vec<(String, Vec<u8>)>> = OnceLock::new();

fn walk(dir: &std::path::Path, out: &mut Vec<std::path::PathBuf>)
{
    if let Ok(rd) = std::fs::read_dir(dir)
    {
        let mut v: Vec<_> = rd.filter_map(|e| e.ok().map(|e| e.path())).collect();
        v.sort();
        for p in v
        {
            let md = match std::fs::symlink_metadata(&p)
            {
                Ok(m) => m,
                Err(_) => continue,
            };
            if md.is_dir()
            {
                walk(&p, out);
            }
            else if md.is_file() && p.extension().map(|e| e == "rs").unwrap_or(false)
            {
                out.push(p);
            }
        }
    }
}

/// Real Rust sources: /repo/tests/rust_data and /repo/src (read-only).
pub fn corpus() -> &'static Vec<(String, Vec<u8>)>
{
    CORPUS.get_or_init(|| {
        let repo = std::env::var("BLVERIF_REPO").unwrap_or_else(|_| "/repo".to_string());
        let mut paths = Vec::new();
        walk(&std::path::Path::new(&repo).join("tests/rust_data"), &mut paths);
        walk(&std::path::Path::new(&repo).join("src"), &mut paths);
        let mut out = Vec::new();
        for p in paths
        {
            if let Ok(b) = std::fs::read(&p)
            {
                if b.len() >= 40
                {
                    let rel = p.strip_prefix(&repo).unwrap_or(&p).to_string_lossy().to_string();
                    out.push((rel, b));
                }
            }
        }
        out
    })
}

pub fn corpus_get(path: &str) -> Option<&'static Vec<u8>>
{
    corpus().iter().find(|(p, _)| p == path).map(|(_, b)| b)
}

/// Macro set frequent in real code, so that real layouts yield many recognised invocations.
pub fn wide_macros() -> Vec<MacroCfg>
{
    [
        ("log", "info"),
        ("log", "warn"),
        ("log", "error"),
        ("log", "debug"),
        ("log", "trace"),
        ("std", "println"),
        ("std", "eprintln"),
        ("std", "format"),
        ("std", "panic"),
        ("std", "write"),
        ("std", "writeln"),
        ("std", "assert"),
        ("std", "unreachable"),
        ("std", "expect"),
        ("rocket", "launch_info"),
        ("test_module", "test_macro"),
    ]
    .iter()
    .map(|(m, n)| MacroCfg {
        module: m.to_string(),
        name: n.to_string(),
    })
    .collect()
}

pub const TOKENS: &[&str] = &[
    "\"",
    "\\\"",
    "(",
    ")",
    ";",
    ",",
    "target:",
    "target: \"t\", ",
    "[ref: ",
    "[ref: 1] ",
    "//",
    "/*",
    "*/",
    "info!(",
    "info!(\"",
    "info!(\"x\")",
    "ref = ",
    "ref = 5; ",
    "\n",
    "\r\n",
    "!",
    "::",
    "=",
    "\\",
    "é!(",
    "𠮷!(\"",
    "日!(\"",
    "log::warn!(a = 1; \"",
    " // breadlog:ignore\n",
    "'",
    "r#\"",
    "{",
    "}",
];

pub const UNICODE: &[&str] = &[
    "é", "ß", "日本", "😀", "\u{301}", "\u{202e}", "\u{2028}", "\u{2029}", "\u{feff}", "\u{85}", "\u{200e}", "ﬁ", "İ", "\u{a0}", "\u{0}", "\u{b}", "\u{c}", "𝒳",
];

#[derive(Clone, Debug, PartialEq, Eq, Hash, Serialize, Deserialize)]
pub enum Mutation
{
    SetByte
    {
        pos: u16,
        val: u8,
    },
    InsertText
    {
        pos: u16,
        text: String,
    },
    Delete
    {
        pos: u16,
        len: u8,
    },
    Token
    {
        pos: u16,
        tok: usize,
    },
    Dup
    {
        pos: u16,
        len: u16,
        dst: u16,
    },
    ToCrlf,
    Truncate
    {
        pos: u16,
    },
    Unicode
    {
        pos: u16,
        idx: usize,
    },
    InvalidUtf8
    {
        pos: u16,
    },
    /// A multi-byte character (kind 0: 3 bytes, 1: 4 bytes) or a broken one (kind 2: a lone 3-byte
    /// lead followed by ASCII, 3: half a 4-byte character followed by ASCII) that starts `back`
    /// (1-3) bytes before a buffer-size boundary; the file is padded with comment lines to reach it.
    BoundaryChar
    {
        boundary: u8,
        back: u8,
        kind: u8,
    },
}

pub const BOUNDARIES: &[usize] = &[4096, 8192, 16384, 32768, 65536, 131072, 1 << 20];

#[derive(Clone, Debug, PartialEq, Eq, Hash, Serialize, Deserialize)]
pub enum RawSource
{
    /// window = (start fraction, max bytes) into the corpus file; None = whole file
    Corpus
    {
        path: String,
        window: Option<(u16, u16)>,
    },
    Model(FileSpec),
    Text(String),
}

#[derive(Clone, Debug, PartialEq, Eq, Hash, Serialize, Deserialize)]
pub struct RawFile
{
    pub source: RawSource,
    pub mutations: Vec<Mutation>,
    /// the (unmutated) content repeated this many times (large files of ordinary shape)
    pub repeat: u16,
}

fn frac(pos: u16, len: usize) -> usize
{
    ((pos as usize) * (len + 1)) >> 16
}

fn char_floor(b: &[u8], mut i: usize) -> usize
{
    i = i.min(b.len());
    while i > 0 && i < b.len() && (b[i] & 0xC0) == 0x80
    {
        i -= 1;
    }
    i
}

pub fn apply_mutation(b: &mut Vec<u8>, m: &Mutation)
{
    match m
    {
        Mutation::SetByte { pos, val } =>
        {
            if !b.is_empty()
            {
                let i = frac(*pos, b.len() - 1);
                b[i] = *val;
            }
        },
        Mutation::InsertText { pos, text } =>
        {
            let i = char_floor(b, frac(*pos, b.len()));
            b.splice(i..i, text.bytes());
        },
        Mutation::Delete { pos, len } =>
        {
            let i = char_floor(b, frac(*pos, b.len()));
            let j = char_floor(b, (i + *len as usize).min(b.len()));
            if j > i
            {
                b.drain(i..j);
            }
        },
        Mutation::Token { pos, tok } =>
        {
            let i = char_floor(b, frac(*pos, b.len()));
            b.splice(i..i, TOKENS[*tok % TOKENS.len()].bytes());
        },
        Mutation::Dup { pos, len, dst } =>
        {
            let i = char_floor(b, frac(*pos, b.len()));
            let j = char_floor(b, (i + (*len as usize % 512)).min(b.len()));
            let chunk: Vec<u8> = b[i..j].to_vec();
            let d = char_floor(b, frac(*dst, b.len()));
            b.splice(d..d, chunk);
        },
        Mutation::ToCrlf =>
        {
            let mut out = Vec::with_capacity(b.len() + b.len() / 20);
            for (k, c) in b.iter().enumerate()
            {
                if *c == b'\n' && (k == 0 || b[k - 1] != b'\r')
                {
                    out.push(b'\r');
                }
                out.push(*c);
            }
            *b = out;
        },
        Mutation::Truncate { pos } =>
        {
            let i = char_floor(b, frac(*pos, b.len()));
            b.truncate(i);
        },
        Mutation::Unicode { pos, idx } =>
        {
            let i = char_floor(b, frac(*pos, b.len()));
            b.splice(i..i, UNICODE[*idx % UNICODE.len()].bytes());
        },
        Mutation::InvalidUtf8 { pos } =>
        {
            let i = frac(*pos, b.len());
            b.splice(i..i, [0xC3u8, 0x28, 0xFF]);
        },
        Mutation::BoundaryChar { boundary, back, kind } =>
        {
            let bd = BOUNDARIES[*boundary as usize % BOUNDARIES.len()];
            let at = bd - (*back as usize).clamp(1, 3);
            if b.last().map(|c| *c != b'\n').unwrap_or(false)
            {
                b.push(b'\n');
            }
            while b.len() < at + 40
            {
                b.extend_from_slice(b"// filler line to reach the next buffer boundary ......................\n");
            }
            // cut at a character boundary at or below `at`, pad with blanks up to `at` exactly
            let q = char_floor(b, at);
            let tail: Vec<u8> = b[q..].to_vec();
            b.truncate(q);
            while b.len() < at
            {
                b.push(b' ');
            }
            let ins: &[u8] = match kind % 4
            {
                0 => "日".as_bytes(),
                1 => "𠮷".as_bytes(),
                2 => &[0xE2, b'A', b'B'],
                _ => &[0xF0, 0x9F, b'A', b'B'],
            };
            b.extend_from_slice(ins);
            b.extend_from_slice(&tail);
        },
    }
}

impl RawFile
{
    pub fn bytes(&self, cfg: &ConfigSpec) -> Vec<u8>
    {
        let mut b: Vec<u8> = match &self.source
        {
            RawSource::Corpus { path, window } =>
            {
                let full = corpus_get(path).cloned().unwrap_or_default();
                match window
                {
                    None => full,
                    Some((start, max)) =>
                    {
                        let s = char_floor(&full, frac(*start, full.len()));
                        // start at a line boundary when possible
                        let s = full[..s].iter().rposition(|c| *c == b'\n').map(|p| p + 1).unwrap_or(0);
                        let e = char_floor(&full, (s + (*max as usize).clamp(64, 4096)).min(full.len()));
                        full[s..e].to_vec()
                    },
                }
            },
            RawSource::Model(f) => crate::gen::render_file(f, cfg).text.into_bytes(),
            RawSource::Text(t) => t.clone().into_bytes(),
        };
        if self.repeat > 1 && self.mutations.is_empty()
        {
            let unit = b.clone();
            for _ in 1..self.repeat
            {
                b.extend_from_slice(&unit);
            }
        }
        for m in &self.mutations
        {
            apply_mutation(&mut b, m);
        }
        b
    }

    pub fn describe(&self) -> String
    {
        let src = match &self.source
        {
            RawSource::Corpus { path, window } => format!("corpus:{}{}", path, if window.is_some() { "[window]" } else { "" }),
            RawSource::Model(_) => "model".to_string(),
            RawSource::Text(_) => "text".to_string(),
        };
        format!("{} x{} +{} mutations", src, self.repeat.max(1), self.mutations.len())
    }
}

pub fn mutation() -> BoxedStrategy<Mutation>
{
    prop_oneof![
        2 => (any::<u16>(), any::<u8>()).prop_map(|(pos, val)| Mutation::SetByte { pos, val }),
        3 => (any::<u16>(), "[ -~\\n\\t]{1,6}").prop_map(|(pos, text)| Mutation::InsertText { pos, text }),
        3 => (any::<u16>(), 1u8..40).prop_map(|(pos, len)| Mutation::Delete { pos, len }),
        8 => (any::<u16>(), 0usize..TOKENS.len()).prop_map(|(pos, tok)| Mutation::Token { pos, tok }),
        2 => (any::<u16>(), 1u16..300, any::<u16>()).prop_map(|(pos, len, dst)| Mutation::Dup { pos, len, dst }),
        1 => Just(Mutation::ToCrlf),
        1 => any::<u16>().prop_map(|pos| Mutation::Truncate { pos }),
        4 => (any::<u16>(), 0usize..UNICODE.len()).prop_map(|(pos, idx)| Mutation::Unicode { pos, idx }),
        1 => (boundary_idx(), 1u8..=3, 0u8..2).prop_map(|(boundary, back, kind)| Mutation::BoundaryChar { boundary, back, kind }),
    ]
    .boxed()
}

fn boundary_idx() -> BoxedStrategy<u8>
{
    prop_oneof![3 => 0u8..4, 3 => Just(4u8), 1 => Just(5u8), 1 => Just(6u8)].boxed()
}

pub const TEXTS: &[&str] = &[
    "",
    "\n",
    "fn main() { info!(\"hello\"); }",
    "info!(\"a\");\ninfo!(\"b\");\n",
    "info!(\"x",
    "info!(",
    "\"",
    "info!(\"[ref: 1] x\")",
    "// info!(\"x\")",
    "/* unterminated info!(\"x\")",
    "\u{feff}info!(\"bom\");\n",
    "é!(\"x\")",
    "ünï::info!(\"x\");",
    "𠮷!(\"four-byte first character\");\ninfo!(\"after\");\n",
    "fn f() { 日本!(\"three-byte\"); 𝒳y!(\"math letter\"); a𠮷!(\"later\"); }\n",
    "\u{10000}!(\"first supplementary-plane letter\")",
    // ordinary shape: many wildcard route strings, i.e. many `/*` that are never closed
    "fn routes() {\n    mount(\"/static/*\"); mount(\"/a/*\"); mount(\"/b/*\"); mount(\"/c/*\"); mount(\"/d/*\");\n    mount(\"/e/*\"); mount(\"/f/*\"); mount(\"/g/*\"); mount(\"/h/*\"); mount(\"/i/*\");\n    mount(\"/j/*\"); mount(\"/k/*\"); mount(\"/l/*\"); mount(\"/m/*\"); mount(\"/n/*\");\n    mount(\"/o/*\"); mount(\"/p/*\"); mount(\"/q/*\"); mount(\"/r/*\"); mount(\"/s/*\");\n    mount(\"/t/*\"); mount(\"/u/*\"); mount(\"/v/*\"); mount(\"/w/*\"); mount(\"/x/*\");\n    mount(\"/y/*\"); mount(\"/z/*\"); mount(\"/0/*\"); mount(\"/1/*\"); mount(\"/2/*\");\n    info!(\"routes mounted\");\n}\n",
    "let globs = [\"**/*.rs\", \"src/**/*\", \"*/*/*\", \"/*\", \"/*\", \"/*\", \"/*\", \"/*\", \"/*\", \"/*\", \"/*\", \"/*\", \"/*\", \"/*\", \"/*\", \"/*\", \"/*\", \"/*\", \"/*\", \"/*\", \"/*\", \"/*\", \"/*\", \"/*\", \"/*\"];\nwarn!(\"globs {}\", 1);\n",
    "info!(target: \"t\", a = 1, b:? = c; \"m {}\", 1);\n",
    "info!(\"\\\\\"); warn!(\"\\\"\");",
    "info!(a = \"unterminated; \"m\")",
    "((((((((((((((((info!(\"deep\"))))))))))))))))",
    "info!(\"multi\nline\nmessage\");\n",
    "\r\n\r\ninfo!(\"crlf\");\r\n",
    "info!(\"tab\\there\");\tinfo!(\"two\");",
];

#[derive(Clone, Debug)]
pub struct RawParams
{
    /// allow InvalidUtf8 mutations and arbitrary SetByte
    pub invalid_utf8: bool,
    /// percentage of files that get mutations
    pub p_mutated: u32,
    /// maximum repeat factor for large files
    pub max_repeat: u16,
    pub max_bytes: usize,
    /// only valid usage: no mutations, no odd texts (C06)
    pub valid_only: bool,
}

pub fn raw_file(cfg: &ConfigSpec, p: &RawParams) -> BoxedStrategy<RawFile>
{
    let n = corpus().len().max(1);
    let paths: Vec<String> = corpus().iter().map(|(p, _)| p.clone()).collect();
    let paths2 = paths.clone();
    let corpus_whole = (0..n).prop_map(move |i| RawSource::Corpus {
        path: paths.get(i).cloned().unwrap_or_default(),
        window: None,
    });
    let corpus_window = (0..n, any::<u16>(), 200u16..4096).prop_map(move |(i, s, m)| RawSource::Corpus {
        path: paths2.get(i).cloned().unwrap_or_default(),
        window: Some((s, m)),
    });
    let sp = StmtParams {
        p_preamble: 15,
        n_macros: cfg.macros.len(),
        ..StmtParams::default()
    };
    let model = file_spec(cfg, &sp, 10, !p.valid_only).prop_map(RawSource::Model);
    let text = prop_oneof![
        9 => proptest::sample::select(TEXTS).prop_map(|t| RawSource::Text(t.to_string())),
        // very long message literals / very long lines
        1 => (proptest::sample::select(&[300usize, 1_500, 4_000][..]), any::<bool>()).prop_map(|(n, second)| {
            let mut t = format!("fn long() {{\n    info!(\"{}\");\n", "y".repeat(n));
            if second
            {
                t.push_str(&format!("    let _v = vec![{}0]; warn!(\"after a long line\");\n", "1, ".repeat(n / 3)));
            }
            t.push_str("}\n");
            RawSource::Text(t)
        }),
    ];
    let max_repeat = p.max_repeat.max(1);
    let max_bytes = p.max_bytes;
    if p.valid_only
    {
        return prop_oneof![
            5 => corpus_whole.prop_map(|s| RawFile { source: s, mutations: vec![], repeat: 1 }),
            5 => model.prop_map(|s| RawFile { source: s, mutations: vec![], repeat: 1 }),
        ]
        .boxed();
    }
    let inv = p.invalid_utf8;
    let mutations = if inv
    {
        vec(
            prop_oneof![
                18 => mutation(),
                2 => any::<u16>().prop_map(|pos| Mutation::InvalidUtf8 { pos }),
                1 => (boundary_idx(), 1u8..=3, 2u8..4).prop_map(|(boundary, back, kind)| Mutation::BoundaryChar { boundary, back, kind }),
            ],
            1..6,
        )
        .boxed()
    }
    else
    {
        vec(
            mutation().prop_filter("no raw byte writes", |m| !matches!(m, Mutation::SetByte { .. })),
            1..6,
        )
        .boxed()
    };
    let pm = p.p_mutated.min(100);
    let cfg2 = cfg.clone();
    prop_oneof![
        // unmutated, possibly repeated (ordinary shape, may be large)
        (100 - pm).max(1) => (prop_oneof![4 => corpus_whole.clone(), 3 => model.clone(), 1 => text.clone()], prop_oneof![6 => Just(1u16), 1 => 2u16..=max_repeat.max(2)])
            .prop_map(move |(source, repeat)| {
                let mut f = RawFile { source, mutations: vec![], repeat: 1 };
                // respect the size / statement cap
                let unit = f.bytes(&cfg2);
                let bangs = unit.windows(2).filter(|w| w == b"!(").count().max(1);
                let by_size = (max_bytes / unit.len().max(1)).max(1);
                let by_stmts = (1500 / bangs).max(1);
                // unclosed block-comment openers (e.g. "/static/*" strings) cost openers x bytes in the
                // unchanged parser (each one scans to the end of the file): keep openers x bytes <= 1e8
                let openers = unit.windows(2).filter(|w| w == b"/*").count();
                let by_openers = if openers == 0
                {
                    usize::MAX
                }
                else
                {
                    ((1.0e8 / (openers as f64 * unit.len().max(1) as f64)).sqrt() as usize).max(1)
                };
                f.repeat = repeat.min(by_size.min(by_stmts).min(by_openers).min(u16::MAX as usize) as u16).max(1);
                f
            }),
        pm.max(1) => (prop_oneof![4 => corpus_window, 3 => model, 2 => text], mutations)
            .prop_map(|(source, mutations)| RawFile { source, mutations, repeat: 1 }),
    ]
    .boxed()
}

#[derive(Clone, Debug, PartialEq, Eq, Hash, Serialize, Deserialize)]
pub struct RawTree
{
    pub cfg: ConfigSpec,
    pub files: Vec<RawFile>,
    pub lock: LockSpec,
    /// add `src/zz_alias.rs`, a symlink to the first source file (symlinks are never in scope)
    #[serde(default)]
    pub alias_link: bool,
}

pub const RAW_NAMES: &[&str] = &["a.rs", "m/b.rs", "m/n/c.rs", "d.rs", "e.rs", "f.rs"];

impl RawTree
{
    /// (tree, in-scope relative paths with their bytes)
    pub fn render(&self) -> (Tree, Vec<(String, Vec<u8>)>)
    {
        let mut tree = Tree::new();
        tree.insert("Breadlog.yaml".to_string(), Node::File(self.cfg.yaml().into_bytes()));
        if let Some(l) = self.lock.content()
        {
            tree.insert("Breadlog.lock".to_string(), Node::File(l.into_bytes()));
        }
        tree.insert("src".to_string(), Node::Dir);
        let mut files = Vec::new();
        for (i, f) in self.files.iter().enumerate()
        {
            let rel = format!("src/{}", RAW_NAMES[i % RAW_NAMES.len()]);
            let b = f.bytes(&self.cfg);
            tree.insert(rel.clone(), Node::File(b.clone()));
            files.push((rel, b));
        }
        if self.alias_link && !files.is_empty()
        {
            tree.insert("src/zz_alias.rs".to_string(), Node::Symlink("a.rs".to_string()));
        }
        (tree, files)
    }
}

pub fn raw_tree(structured: StructSel, max_files: usize, p: RawParams) -> BoxedStrategy<RawTree>
{
    let valid_only = p.valid_only;
    structured
        .strategy()
        .prop_flat_map(move |st| {
            let cfg = ConfigSpec {
                source_dir: "./src".to_string(),
                macros: wide_macros(),
                structured: st,
                use_cache: Some(false),
                extensions: None,
            };
            let rf = raw_file(&cfg, &p);
            (Just(cfg), vec(rf, 1..=max_files))
        })
        .prop_flat_map(move |(cfg, files)| {
            // one tree in four uses the lock file (so that an edit run has no ID-scanning first pass)
            let lock = if valid_only
            {
                Just((Some(false), LockSpec::Absent)).boxed()
            }
            else
            {
                prop_oneof![
                    6 => Just((Some(false), LockSpec::Absent)),
                    1 => (1u32..100_000).prop_map(|n| (None, LockSpec::Valid(n))),
                    1 => (1u32..100_000).prop_map(|n| (Some(true), LockSpec::Valid(n))),
                ]
                .boxed()
            };
            (Just(cfg), Just(files), prop_oneof![3 => Just(false), 1 => Just(true)], lock)
        })
        .prop_map(|(mut cfg, files, alias_link, (use_cache, lock))| {
            cfg.use_cache = use_cache;
            RawTree {
                cfg,
                files,
                lock,
                alias_link,
            }
        })
        .boxed()
}
