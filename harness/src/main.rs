#![allow(dead_code)]
//! blverif — property-based verification harness for breadlog.
//!
//! blverif --prop C10 --tier quick|thorough [--seed N] [--replay FILE]
//! blverif --probe [-s]            (parser entries for stdin; debugging aid)

mod engine;
mod gen;
mod gen_raw;
mod hook;
mod model_check;
mod oracle;
mod props;
mod sandbox;

use engine::{Env, Recorder, Tier};
use std::path::PathBuf;

fn arg_value(args: &[String], name: &str) -> Option<String>
{
    args.iter().position(|a| a == name).and_then(|i| args.get(i + 1).cloned())
}

fn run_property(env: &Env, rec: &Recorder) -> (String, String, Vec<&'static str>)
{
    use props::model_family::Which;
    match env.prop.as_str()
    {
        "C10" =>
        {
            let (r, a) = props::model_family::run(env, rec, Which::C10);
            ("exploration".into(), r, a)
        },
        "C11" =>
        {
            let (r, a) = props::model_family::run(env, rec, Which::C11);
            ("exploration".into(), r, a)
        },
        "C13" =>
        {
            let (r, a) = props::model_family::run(env, rec, Which::C13);
            ("exploration".into(), r, a)
        },
        "C14" =>
        {
            let (r, a) = props::model_family::run(env, rec, Which::C14);
            ("exploration".into(), r, a)
        },
        "C03" | "C05" | "C06" =>
        {
            use props::raw_family::Which as W;
            let w = match env.prop.as_str() { "C03" => W::C03, "C05" => W::C05, _ => W::C06 };
            let (r, a) = props::raw_family::run(env, rec, w);
            ("exploration".into(), r, a)
        },
        "C17" =>
        {
            let (r, mut a) = props::raw_family::run(env, rec, props::raw_family::Which::C17);
            if std::env::var("BLVERIF_NO_FUZZ").is_err()
            {
                props::c17_fuzz::run(env, rec);
            }
            a.push("libFuzzer campaigns are only approximately pinned by -seed/-runs; the saved input is the reproducible unit; inputs are capped at 4 KiB because of the parser's known super-linear cost on adversarial shapes (DESIGN.md section 6)");
            let r = format!("{} PLUS coverage-guided libFuzzer campaigns on two in-process targets built from the same sources (fz_parse: parser under 8 configurations, oracle = no panic, ordered char-boundary offsets, line/column = position model; fz_edit: check+edit on a one-file project, oracle = no panic, insertion-only edit, insertions = parser prediction, check passes afterwards) with a dictionary and a generated seed corpus; for the fuzzers non-trivial = inputs that added coverage", r);
            ("exploration".into(), r, a)
        },
        "C01" =>
        {
            let (r, a) = props::c01::run(env, rec);
            ("exploration".into(), r, a)
        },
        "C07" =>
        {
            let (r, a) = props::c07::run(env, rec);
            ("fault_enumeration".into(), r, a)
        },
        "C08" =>
        {
            let (r, a) = props::c08::run(env, rec);
            ("fault_enumeration".into(), r, a)
        },
        "C18" =>
        {
            let (r, a) = props::c18::run(env, rec);
            ("fault_enumeration".into(), r, a)
        },
        "C02" =>
        {
            let (r, a) = props::c02::run(env, rec);
            ("exploration".into(), r, a)
        },
        "C04" =>
        {
            let (r, a) = props::c04::run(env, rec);
            ("exploration".into(), r, a)
        },
        "C15" =>
        {
            let (r, a) = props::c15::run(env, rec);
            ("exploration".into(), r, a)
        },
        "C16" =>
        {
            let (r, a) = props::c16::run(env, rec);
            ("exploration".into(), r, a)
        },
        "C09" =>
        {
            let (r, a) = props::c09::run(env, rec);
            ("translation_validation".into(), r, a)
        },
        "C12" =>
        {
            let (r, a) = props::c12::run(env, rec);
            ("exploration".into(), r, a)
        },
        other =>
        {
            eprintln!("unknown property {}", other);
            std::process::exit(2);
        },
    }
}

fn main()
{
    let args: Vec<String> = std::env::args().collect();
    if args.iter().any(|a| a == "--probe")
    {
        use std::io::Read;
        let structured = args.iter().any(|a| a == "-s");
        let mut code = String::new();
        std::io::stdin().read_to_string(&mut code).unwrap();
        let macros = vec![
            ("log".to_string(), "info".to_string()),
            ("log".to_string(), "warn".to_string()),
        ];
        for e in breadlog::verif::find(&code, structured, &macros)
        {
            println!("{:?}", e);
        }
        return;
    }
    let prop = arg_value(&args, "--prop").expect("--prop required");
    hook::quiet_panics();
    let tier = match arg_value(&args, "--tier").as_deref()
    {
        Some("thorough") => Tier::Thorough,
        _ => Tier::Quick,
    };
    let seed: u64 = arg_value(&args, "--seed")
        .or_else(|| std::env::var("VERIF_SEED").ok())
        .and_then(|s| s.trim().parse::<i128>().ok())
        .map(|v| v as u64)
        .unwrap_or(20261003);
    let verif_dir = PathBuf::from(std::env::var("BLVERIF_DIR").unwrap_or_else(|_| "/verif".to_string()));
    let threads = std::env::var("BLVERIF_THREADS")
        .ok()
        .and_then(|s| s.parse().ok())
        .unwrap_or_else(|| std::thread::available_parallelism().map(|n| n.get()).unwrap_or(8));
    let scale = std::env::var("BLVERIF_SCALE").ok().and_then(|s| s.parse().ok()).unwrap_or(1.0);
    let known = engine::load_known(&verif_dir);
    let rec = Recorder::new();
    let replay_file = arg_value(&args, "--replay");
    let mut level_rule = None;

    // 1. regression inputs (or the single requested replay)
    let mut replay_files: Vec<PathBuf> = Vec::new();
    if let Some(f) = &replay_file
    {
        replay_files.push(PathBuf::from(f));
    }
    else if let Ok(rd) = std::fs::read_dir(verif_dir.join("replays").join(&prop))
    {
        let mut v: Vec<PathBuf> = rd
            .filter_map(|e| e.ok().map(|e| e.path()))
            .filter(|p| p.extension().map(|x| x == "json").unwrap_or(false))
            .filter(|p| !p.file_name().unwrap().to_string_lossy().starts_with("found-"))
            .collect();
        v.sort();
        replay_files = v;
    }
    let mut replayed = 0;
    for f in &replay_files
    {
        let text = match std::fs::read_to_string(f)
        {
            Ok(t) => t,
            Err(e) =>
            {
                eprintln!("cannot read replay file {}: {}", f.display(), e);
                std::process::exit(2);
            },
        };
        let v: serde_json::Value = match serde_json::from_str(&text)
        {
            Ok(v) => v,
            Err(e) =>
            {
                eprintln!("replay file {} is not JSON: {}", f.display(), e);
                std::process::exit(2);
            },
        };
        let part = v["part"].as_str().unwrap_or("").to_string();
        std::env::set_var("BLVERIF_REPLAY_PATH", f);
        let env = Env {
            prop: prop.clone(),
            tier,
            seed,
            threads,
            replay: Some((part, v["case"].clone())),
            verif_dir: verif_dir.clone(),
            known: known.clone(),
            scale,
        };
        level_rule = Some(run_property(&env, &rec));
        replayed += 1;
    }
    rec.extra("regression_inputs_replayed", serde_json::json!(replayed));

    // 2. generated search
    let env = Env {
        prop: prop.clone(),
        tier,
        seed,
        threads,
        replay: None,
        verif_dir: verif_dir.clone(),
        known,
        scale,
    };
    if replay_file.is_none()
    {
        level_rule = Some(run_property(&env, &rec));
    }
    let (level, rule, assumptions) = level_rule.expect("nothing was run");
    let env_for_finish = Env {
        replay: if replay_file.is_some() { Some((String::new(), serde_json::Value::Null)) } else { None },
        ..env
    };
    let code = rec.finish(&env_for_finish, &level, &rule, &assumptions);
    std::process::exit(code);
}
