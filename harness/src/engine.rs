//! Parallel proptest driver, evidence recorder, known-findings matcher, replay.

use proptest::strategy::{BoxedStrategy, Strategy, ValueTree};
use proptest::test_runner::{Config, RngAlgorithm, TestCaseError, TestError, TestRng, TestRunner};
use serde::de::DeserializeOwned;
use serde::Serialize;
use serde_json::{json, Map, Value};
use std::collections::hash_map::DefaultHasher;
use std::collections::{BTreeMap, HashSet};
use std::hash::{Hash, Hasher};
use std::path::PathBuf;
use std::sync::atomic::{AtomicBool, AtomicU64, Ordering};
use std::sync::{Arc, Mutex};
use std::time::Instant;

#[derive(Clone, Copy, Debug, PartialEq, Eq)]
pub enum Tier
{
    Quick,
    Thorough,
}

impl Tier
{
    pub fn name(&self) -> &'static str
    {
        match self
        {
            Tier::Quick => "quick",
            Tier::Thorough => "thorough",
        }
    }
    /// pick(quick, thorough)
    pub fn pick<T>(&self, q: T, t: T) -> T
    {
        match self
        {
            Tier::Quick => q,
            Tier::Thorough => t,
        }
    }
}

pub struct Env
{
    pub prop: String,
    pub tier: Tier,
    pub seed: u64,
    pub threads: usize,
    /// (part, case) when replaying a saved case
    pub replay: Option<(String, Value)>,
    pub verif_dir: PathBuf,
    pub known: Vec<KnownFinding>,
    /// scale factor for case counts (BLVERIF_SCALE, default 1.0)
    pub scale: f64,
}

impl Env
{
    pub fn cases(&self, quick: u64, thorough: u64) -> u64
    {
        let n = self.tier.pick(quick, thorough) as f64 * self.scale;
        (n.ceil() as u64).max(1)
    }
}

#[derive(Clone, Debug)]
pub struct KnownFinding
{
    pub property: String,
    pub signature: String,
    pub what_fails: String,
    pub status: String, // "known" | "fixed"
}

pub fn load_known(verif_dir: &std::path::Path) -> Vec<KnownFinding>
{
    let p = verif_dir.join("known_findings.json");
    let text = match std::fs::read_to_string(&p)
    {
        Ok(t) => t,
        Err(_) => return Vec::new(),
    };
    let v: Value = serde_json::from_str(&text).expect("known_findings.json must be valid JSON");
    let mut out = Vec::new();
    if let Some(arr) = v.get("findings").and_then(|a| a.as_array())
    {
        for e in arr
        {
            out.push(KnownFinding {
                property: e["property"].as_str().unwrap_or("").to_string(),
                signature: e["signature"].as_str().unwrap_or("").to_string(),
                what_fails: e["what_fails"].as_str().unwrap_or("").to_string(),
                status: e["status"].as_str().unwrap_or("known").to_string(),
            });
        }
    }
    out
}

#[derive(Clone, Debug)]
pub struct Deviation
{
    /// Stable classification of what went wrong (matched against known findings).
    pub signature: String,
    pub message: String,
}

pub fn dev(signature: &str, message: String) -> Deviation
{
    Deviation {
        signature: signature.to_string(),
        message,
    }
}

#[derive(Default)]
pub struct CaseOutcome
{
    pub nontrivial: bool,
    pub classes: Vec<String>,
    pub deviations: Vec<Deviation>,
    /// number of elementary evaluations in this case (process runs, statements, strings)
    pub evals: u64,
    /// human-readable rendering of the case, used for evidence samples
    pub sample: Option<Value>,
    /// the case could not be judged (timeout etc.)
    pub inconclusive: Option<String>,
    /// hashes of non-trivial elements inside the case (statements, strings …)
    pub extra_nontrivial: Vec<u64>,
}

impl CaseOutcome
{
    pub fn class(&mut self, c: &str)
    {
        self.classes.push(c.to_string());
    }
    pub fn fail(&mut self, signature: &str, message: String)
    {
        self.deviations.push(dev(signature, message));
    }
}

#[derive(Default)]
struct RecInner
{
    evaluations: u64,
    cases: u64,
    nontrivial: HashSet<u64>,
    classes: BTreeMap<String, u64>,
    samples: Vec<Value>,
    nontrivial_samples: Vec<Value>,
    violations: Vec<(String, String, String, PathBuf)>, // part, signature, message, replay path
    known_hits: BTreeMap<String, u64>,                    // what_fails -> count
    inconclusive: Vec<String>,
    harness_errors: Vec<String>,
    extra: Map<String, Value>,
    exhaustive: Option<bool>,
    parts: Vec<Value>,
    /// (seconds, part, abridged case) of the slowest cases
    slowest: Vec<(f64, String, String)>,
}

#[derive(Clone)]
pub struct Recorder
{
    inner: Arc<Mutex<RecInner>>,
    pub stop: Arc<AtomicBool>,
    t0: Instant,
}

pub fn hash_of<T: Hash>(t: &T) -> u64
{
    let mut h = DefaultHasher::new();
    t.hash(&mut h);
    h.finish()
}

impl Recorder
{
    pub fn new() -> Recorder
    {
        Recorder {
            inner: Arc::new(Mutex::new(RecInner::default())),
            stop: Arc::new(AtomicBool::new(false)),
            t0: Instant::now(),
        }
    }

    pub fn add_evals(&self, n: u64)
    {
        self.inner.lock().unwrap().evaluations += n;
    }
    pub fn add_nontrivial(&self, h: u64)
    {
        self.inner.lock().unwrap().nontrivial.insert(h);
    }
    pub fn add_nontrivial_many(&self, hs: impl IntoIterator<Item = u64>)
    {
        let mut g = self.inner.lock().unwrap();
        for h in hs
        {
            g.nontrivial.insert(h);
        }
    }
    pub fn class(&self, c: &str, n: u64)
    {
        *self.inner.lock().unwrap().classes.entry(c.to_string()).or_insert(0) += n;
    }
    pub fn sample(&self, v: Value)
    {
        let mut g = self.inner.lock().unwrap();
        if g.samples.len() < 4
        {
            g.samples.push(v);
        }
    }
    pub fn force_sample(&self, v: Value)
    {
        self.inner.lock().unwrap().samples.push(v);
    }
    pub fn extra(&self, k: &str, v: Value)
    {
        self.inner.lock().unwrap().extra.insert(k.to_string(), v);
    }
    pub fn set_exhaustive(&self, e: bool)
    {
        let mut g = self.inner.lock().unwrap();
        g.exhaustive = Some(g.exhaustive.unwrap_or(true) && e);
    }
    pub fn inconclusive(&self, m: String)
    {
        self.inner.lock().unwrap().inconclusive.push(m);
    }
    pub fn harness_error(&self, m: String)
    {
        self.inner.lock().unwrap().harness_errors.push(m);
    }
    pub fn part_info(&self, v: Value)
    {
        self.inner.lock().unwrap().parts.push(v);
    }

    /// Record the outcome of one case. Returns the deviations that are NOT known findings.
    pub fn record(&self, env: &Env, case_hash: u64, o: &CaseOutcome) -> Vec<Deviation>
    {
        let mut g = self.inner.lock().unwrap();
        g.cases += 1;
        g.evaluations += o.evals.max(1);
        if o.nontrivial
        {
            g.nontrivial.insert(case_hash);
            if g.nontrivial_samples.len() < 3
            {
                if let Some(s) = &o.sample
                {
                    g.nontrivial_samples.push(s.clone());
                }
            }
        }
        for h in &o.extra_nontrivial
        {
            g.nontrivial.insert(*h);
        }
        for c in &o.classes
        {
            *g.classes.entry(c.clone()).or_insert(0) += 1;
        }
        if g.samples.len() < 2
        {
            if let Some(s) = &o.sample
            {
                g.samples.push(s.clone());
            }
        }
        if let Some(m) = &o.inconclusive
        {
            g.inconclusive.push(m.clone());
            // a hang suspect / watchdog hit: end the run soon, the verdict is "inconclusive" anyway
            self.stop.store(true, Ordering::Relaxed);
        }
        let mut unknown = Vec::new();
        for d in &o.deviations
        {
            let k = env
                .known
                .iter()
                .find(|k| k.status == "known" && k.property == env.prop && k.signature == d.signature);
            match k
            {
                Some(k) => *g.known_hits.entry(k.what_fails.clone()).or_insert(0) += 1,
                None => unknown.push(d.clone()),
            }
        }
        unknown
    }

    pub fn violation(&self, part: &str, sig: &str, msg: &str, replay: PathBuf)
    {
        let mut g = self.inner.lock().unwrap();
        if g.violations.iter().any(|v| v.1 == sig && v.0 == part)
        {
            return;
        }
        g.violations
            .push((part.to_string(), sig.to_string(), msg.to_string(), replay));
    }

    pub fn has_violation_sig(&self, part: &str, sig: &str) -> bool
    {
        self.inner.lock().unwrap().violations.iter().any(|v| v.0 == part && v.1 == sig)
    }

    pub fn note_slow(&self, secs: f64, part: &str, case: impl FnOnce() -> String)
    {
        if secs < 2.0
        {
            return;
        }
        let mut g = self.inner.lock().unwrap();
        if g.slowest.len() < 5 || g.slowest.iter().any(|s| s.0 < secs)
        {
            g.slowest.push((secs, part.to_string(), case()));
            g.slowest.sort_by(|a, b| b.0.partial_cmp(&a.0).unwrap());
            g.slowest.truncate(5);
        }
    }

    pub fn cases(&self) -> u64
    {
        self.inner.lock().unwrap().cases
    }

    pub fn violation_count(&self) -> usize
    {
        self.inner.lock().unwrap().violations.len()
    }

    pub fn has_violation(&self) -> bool
    {
        !self.inner.lock().unwrap().violations.is_empty()
    }

    /// Print result lines, write the evidence file, return the exit code.
    pub fn finish(&self, env: &Env, level: &str, rule: &str, assumptions: &[&str]) -> i32
    {
        let g = self.inner.lock().unwrap();
        for (what, n) in &g.known_hits
        {
            println!("KNOWN-FINDING: property={} {} (hit {} time(s))", env.prop, what, n);
        }
        for (part, sig, msg, path) in &g.violations
        {
            println!("--- violation in part '{}' [{}]", part, sig);
            println!("{}", msg);
            println!("VIOLATION property={} replay={}", env.prop, path.display());
        }
        for m in g.inconclusive.iter().take(5)
        {
            println!("INCONCLUSIVE: {}", m);
        }
        for m in g.harness_errors.iter().take(5)
        {
            println!("HARNESS-ERROR: {}", m);
        }
        let mut samples = g.nontrivial_samples.clone();
        for s in &g.samples
        {
            if samples.len() < 5
            {
                samples.push(s.clone());
            }
        }
        if samples.is_empty()
        {
            samples.push(json!("(no sample recorded)"));
        }
        let mut coverage = Map::new();
        coverage.insert("evaluations".into(), json!(g.evaluations));
        coverage.insert("cases".into(), json!(g.cases));
        coverage.insert("distinct_nontrivial".into(), json!(g.nontrivial.len()));
        coverage.insert("rule".into(), json!(rule));
        coverage.insert("samples".into(), Value::Array(samples));
        coverage.insert("class_histogram".into(), json!(g.classes));
        coverage.insert("known_finding_hits".into(), json!(g.known_hits));
        coverage.insert(
            "process_runs".into(),
            json!(crate::sandbox::PROCESS_RUNS.load(Ordering::Relaxed)),
        );
        if let Some(e) = g.exhaustive
        {
            coverage.insert("exhaustive".into(), json!(e));
        }
        if !g.parts.is_empty()
        {
            coverage.insert("parts".into(), Value::Array(g.parts.clone()));
        }
        if !g.slowest.is_empty()
        {
            coverage.insert(
                "slowest_cases".into(),
                Value::Array(g.slowest.iter().map(|(t, p, c)| json!({"seconds": t, "part": p, "case": c})).collect()),
            );
        }
        for (k, v) in &g.extra
        {
            coverage.insert(k.clone(), v.clone());
        }
        let ev = json!({
            "property_id": env.prop,
            "tier": env.tier.name(),
            "seed": env.seed,
            "level": level,
            "coverage": Value::Object(coverage),
            "assumptions": assumptions,
            "wall_s": self.t0.elapsed().as_secs_f64(),
            "violations": g.violations.len(),
            "inconclusive": g.inconclusive.len(),
        });
        if env.replay.is_none()
        {
            let dir = env.verif_dir.join("evidence");
            let _ = std::fs::create_dir_all(&dir);
            let tmp = dir.join(format!("{}.json.tmp", env.prop));
            let fin = dir.join(format!("{}.json", env.prop));
            std::fs::write(&tmp, serde_json::to_string_pretty(&ev).unwrap()).expect("write evidence");
            std::fs::rename(&tmp, &fin).expect("rename evidence");
        }
        println!(
            "{} {}: cases={} evaluations={} distinct_nontrivial={} violations={} known_hits={} inconclusive={} wall={:.1}s",
            env.prop,
            env.tier.name(),
            g.cases,
            g.evaluations,
            g.nontrivial.len(),
            g.violations.len(),
            g.known_hits.values().sum::<u64>(),
            g.inconclusive.len(),
            self.t0.elapsed().as_secs_f64()
        );
        if !g.violations.is_empty()
        {
            1
        }
        else if !g.harness_errors.is_empty() || !g.inconclusive.is_empty()
        {
            2
        }
        else
        {
            0
        }
    }
}

fn splitmix(mut x: u64) -> u64
{
    x = x.wrapping_add(0x9E3779B97F4A7C15);
    let mut z = x;
    z = (z ^ (z >> 30)).wrapping_mul(0xBF58476D1CE4E5B9);
    z = (z ^ (z >> 27)).wrapping_mul(0x94D049BB133111EB);
    z ^ (z >> 31)
}

pub fn rng_for(seed: u64, prop: &str, part: &str, worker: u64) -> TestRng
{
    let mut s = splitmix(seed ^ hash_of(&(prop, part)));
    s = splitmix(s ^ worker.wrapping_mul(0xA24BAED4963EE407));
    let mut bytes = [0u8; 32];
    for i in 0..4
    {
        s = splitmix(s);
        bytes[i * 8..i * 8 + 8].copy_from_slice(&s.to_le_bytes());
    }
    TestRng::from_seed(RngAlgorithm::ChaCha, &bytes)
}

fn save_replay<C: Serialize>(env: &Env, part: &str, case: &C, devs: &[Deviation]) -> PathBuf
{
    let case_v = serde_json::to_value(case).unwrap_or(Value::Null);
    let text = serde_json::to_string(&case_v).unwrap_or_default();
    let h = hash_of(&(part, &text));
    let dir = env.verif_dir.join("replays").join(&env.prop);
    let _ = std::fs::create_dir_all(&dir);
    let path = dir.join(format!("found-{:016x}.json", h));
    let doc = json!({
        "property": env.prop,
        "part": part,
        "signature": devs.first().map(|d| d.signature.clone()).unwrap_or_default(),
        "message": devs.iter().map(|d| format!("[{}] {}", d.signature, d.message)).collect::<Vec<_>>(),
        "case": case_v,
    });
    let _ = std::fs::write(&path, serde_json::to_string_pretty(&doc).unwrap());
    path
}

fn run_checked<C>(check: &(dyn Fn(&C) -> CaseOutcome + Sync), case: &C) -> Result<CaseOutcome, String>
{
    match std::panic::catch_unwind(std::panic::AssertUnwindSafe(|| check(case)))
    {
        Ok(o) => Ok(o),
        Err(e) =>
        {
            let m = if let Some(s) = e.downcast_ref::<String>()
            {
                s.clone()
            }
            else if let Some(s) = e.downcast_ref::<&str>()
            {
                s.to_string()
            }
            else
            {
                "panic".to_string()
            };
            Err(m)
        },
    }
}

/// Run one generated-case part of a property: `cases` cases spread over the
/// worker threads, each worker with its own deterministic RNG. On a failure the
/// case is shrunk by proptest, saved as a replay file and reported.
pub fn pbt<C>(
    env: &Env,
    rec: &Recorder,
    part: &str,
    cases: u64,
    strategy: &(dyn Fn() -> BoxedStrategy<C> + Sync),
    check: &(dyn Fn(&C) -> CaseOutcome + Sync),
) where
    C: std::fmt::Debug + Clone + Serialize + DeserializeOwned + Send + 'static,
{
    pbt_opts(env, rec, part, cases, 1500, strategy, check)
}

/// As `pbt`, with an explicit bound on shrink iterations (expensive cases).
pub fn pbt_opts<C>(
    env: &Env,
    rec: &Recorder,
    part: &str,
    cases: u64,
    shrink_iters: u32,
    strategy: &(dyn Fn() -> BoxedStrategy<C> + Sync),
    check: &(dyn Fn(&C) -> CaseOutcome + Sync),
) where
    C: std::fmt::Debug + Clone + Serialize + DeserializeOwned + Send + 'static,
{
    // Replay mode: run exactly the saved case of this part.
    if let Some((rpart, rcase)) = &env.replay
    {
        if rpart != part
        {
            return;
        }
        let case: C = match serde_json::from_value(rcase.clone())
        {
            Ok(c) => c,
            Err(e) =>
            {
                rec.harness_error(format!("cannot decode replay case for part {}: {}", part, e));
                return;
            },
        };
        match run_checked(check, &case)
        {
            Err(m) => rec.harness_error(format!("harness panic in replay: {}", m)),
            Ok(o) =>
            {
                let h = hash_of(&serde_json::to_string(&case).unwrap_or_default());
                let unknown = rec.record(env, h, &o);
                if !unknown.is_empty()
                {
                    let msg = unknown
                        .iter()
                        .map(|d| format!("[{}] {}", d.signature, d.message))
                        .collect::<Vec<_>>()
                        .join("\n");
                    let path = std::env::var("BLVERIF_REPLAY_PATH").map(PathBuf::from).unwrap_or_default();
                    rec.violation(part, &unknown[0].signature, &msg, path);
                }
            },
        }
        return;
    }

    let t0 = Instant::now();
    let threads = env.threads.max(1).min(cases.max(1) as usize);
    let per = cases / threads as u64;
    let extra = cases % threads as u64;
    let done = AtomicU64::new(0);
    std::thread::scope(|scope| {
        for w in 0..threads
        {
            let n = per + if (w as u64) < extra { 1 } else { 0 };
            if n == 0
            {
                continue;
            }
            let done = &done;
            scope.spawn(move || {
                let strat = strategy();
                let config = Config {
                    cases: n as u32,
                    failure_persistence: None,
                    max_shrink_iters: shrink_iters,
                    max_shrink_time: 0,
                    max_local_rejects: 1_000_000,
                    max_global_rejects: 1_000_000,
                    verbose: 0,
                    ..Config::default()
                };
                let mut runner = TestRunner::new_with_rng(config, rng_for(env.seed, &env.prop, part, w as u64));
                let failed_once = AtomicBool::new(false);
                let harness_err: Mutex<Option<String>> = Mutex::new(None);
                // what the FIRST failing case looked like (kept for the report when shrinking ends in a case that passes on re-run)
                let first_failure: Mutex<Option<(String, Vec<Deviation>)>> = Mutex::new(None);
                let result = runner.run(&strat, |case: C| {
                    if rec.stop.load(Ordering::Relaxed) && !failed_once.load(Ordering::Relaxed)
                    {
                        return Ok(());
                    }
                    let t_case = Instant::now();
                    let checked = run_checked(check, &case);
                    rec.note_slow(t_case.elapsed().as_secs_f64(), part, || {
                        let j = serde_json::to_string(&case).unwrap_or_default();
                        if j.len() <= 1400
                        {
                            j
                        }
                        else
                        {
                            let mut a = 300;
                            while !j.is_char_boundary(a)
                            {
                                a -= 1;
                            }
                            let mut b = j.len() - 1000;
                            while !j.is_char_boundary(b)
                            {
                                b += 1;
                            }
                            format!("{} … {}", &j[..a], &j[b..])
                        }
                    });
                    let o = match checked
                    {
                        Ok(o) => o,
                        Err(m) =>
                        {
                            // A panic inside the harness is not evidence about the subject.
                            *harness_err.lock().unwrap() = Some(format!("{} on case {:?}", m, case));
                            rec.stop.store(true, Ordering::Relaxed);
                            return Ok(());
                        },
                    };
                    if failed_once.load(Ordering::Relaxed)
                    {
                        // shrinking: do not count, only decide
                        let unknown: Vec<_> = o
                            .deviations
                            .iter()
                            .filter(|d| {
                                !env.known.iter().any(|k| {
                                    k.status == "known" && k.property == env.prop && k.signature == d.signature
                                })
                            })
                            .collect();
                        return if unknown.is_empty()
                        {
                            Ok(())
                        }
                        else
                        {
                            Err(TestCaseError::fail(unknown[0].signature.clone()))
                        };
                    }
                    let h = hash_of(&serde_json::to_string(&case).unwrap_or_default());
                    let unknown = rec.record(env, h, &o);
                    done.fetch_add(1, Ordering::Relaxed);
                    if unknown.is_empty()
                    {
                        Ok(())
                    }
                    else
                    {
                        failed_once.store(true, Ordering::Relaxed);
                        rec.stop.store(true, Ordering::Relaxed);
                        *first_failure.lock().unwrap() = Some((serde_json::to_string(&case).unwrap_or_default(), unknown.clone()));
                        Err(TestCaseError::fail(unknown[0].signature.clone()))
                    }
                });
                if let Some(m) = harness_err.lock().unwrap().take()
                {
                    rec.harness_error(format!("harness panic in part {}: {}", part, m));
                }
                match result
                {
                    Ok(()) => (),
                    Err(TestError::Fail(_reason, minimal)) =>
                    {
                        let o = run_checked(check, &minimal).unwrap_or_default();
                        let unknown: Vec<Deviation> = o
                            .deviations
                            .iter()
                            .filter(|d| {
                                !env.known.iter().any(|k| {
                                    k.status == "known" && k.property == env.prop && k.signature == d.signature
                                })
                            })
                            .cloned()
                            .collect();
                        let devs = if unknown.is_empty()
                        {
                            let ff = first_failure.lock().unwrap().clone();
                            let orig = ff
                                .map(|(c, d)| {
                                    format!(
                                        "; the first failing case reported {} on case {}",
                                        d.iter().map(|x| format!("[{}] {}", x.signature, truncate(&x.message, 1500))).collect::<Vec<_>>().join(" | "),
                                        truncate(&c, 2500)
                                    )
                                })
                                .unwrap_or_default();
                            vec![dev("flaky", format!("the shrunk case did not fail again when re-run{}", orig))]
                        }
                        else
                        {
                            unknown
                        };
                        if rec.has_violation_sig(part, &devs[0].signature)
                        {
                            return;
                        }
                        let path = save_replay(env, part, &minimal, &devs);
                        let msg = devs
                            .iter()
                            .map(|d| format!("[{}] {}", d.signature, d.message))
                            .collect::<Vec<_>>()
                            .join("\n");
                        let msg = format!(
                            "{}\nminimal case: {}",
                            msg,
                            truncate(&serde_json::to_string(&minimal).unwrap_or_default(), 3000)
                        );
                        rec.violation(part, &devs[0].signature, &msg, path);
                    },
                    Err(TestError::Abort(r)) =>
                    {
                        rec.harness_error(format!("proptest aborted in part {}: {}", part, r));
                    },
                }
            });
        }
    });
    rec.part_info(json!({
        "part": part,
        "cases_requested": cases,
        "cases_run": done.load(Ordering::Relaxed),
        "threads": threads,
        "wall_s": t0.elapsed().as_secs_f64(),
    }));
}

pub fn truncate(s: &str, n: usize) -> String
{
    if s.len() <= n
    {
        s.to_string()
    }
    else
    {
        let mut e = n;
        while !s.is_char_boundary(e)
        {
            e -= 1;
        }
        format!("{}… ({} bytes)", &s[..e], s.len())
    }
}

/// Run a fixed list of cases (enumerations, probes) through the same recording
/// and replay machinery as `pbt`, in parallel. Every failing case is saved.
pub fn enumerate<C>(env: &Env, rec: &Recorder, part: &str, cases: Vec<C>, check: &(dyn Fn(&C) -> CaseOutcome + Sync))
where
    C: std::fmt::Debug + Clone + Serialize + DeserializeOwned + Send + Sync + 'static,
{
    if let Some((rpart, rcase)) = &env.replay
    {
        if rpart != part
        {
            return;
        }
        let case: C = match serde_json::from_value(rcase.clone())
        {
            Ok(c) => c,
            Err(e) =>
            {
                rec.harness_error(format!("cannot decode replay case for part {}: {}", part, e));
                return;
            },
        };
        run_fixed(env, rec, part, &case, check, true);
        return;
    }
    let t0 = Instant::now();
    let idx = AtomicU64::new(0);
    let n = cases.len() as u64;
    let cases = &cases;
    std::thread::scope(|scope| {
        for _ in 0..env.threads.max(1)
        {
            let idx = &idx;
            scope.spawn(move || loop
            {
                let i = idx.fetch_add(1, Ordering::Relaxed);
                if i >= n
                {
                    break;
                }
                run_fixed(env, rec, part, &cases[i as usize], check, false);
            });
        }
    });
    rec.part_info(json!({"part": part, "cases_run": n, "enumerated": true, "wall_s": t0.elapsed().as_secs_f64()}));
}

fn run_fixed<C>(env: &Env, rec: &Recorder, part: &str, case: &C, check: &(dyn Fn(&C) -> CaseOutcome + Sync), replaying: bool)
where
    C: std::fmt::Debug + Clone + Serialize + DeserializeOwned,
{
    match run_checked(check, case)
    {
        Err(m) => rec.harness_error(format!("harness panic in part {}: {} on {:?}", part, m, case)),
        Ok(o) =>
        {
            let h = hash_of(&serde_json::to_string(case).unwrap_or_default());
            let unknown = rec.record(env, h, &o);
            if !unknown.is_empty()
            {
                let msg = unknown
                    .iter()
                    .map(|d| format!("[{}] {}", d.signature, d.message))
                    .collect::<Vec<_>>()
                    .join("\n");
                let path = if replaying
                {
                    std::env::var("BLVERIF_REPLAY_PATH").map(PathBuf::from).unwrap_or_default()
                }
                else
                {
                    save_replay(env, part, case, &unknown)
                };
                let msg = format!(
                    "{}\ncase: {}",
                    msg,
                    truncate(&serde_json::to_string(case).unwrap_or_default(), 3000)
                );
                rec.violation(part, &unknown[0].signature, &msg, path);
            }
        },
    }
}

/// Draw one value from a strategy with a deterministic RNG (used to build
/// fixed inputs for enumerated parts).
pub fn draw<C: std::fmt::Debug>(env: &Env, part: &str, idx: u64, strat: &BoxedStrategy<C>) -> C
{
    let mut runner = TestRunner::new_with_rng(Config::default(), rng_for(env.seed, &env.prop, part, idx));
    strat.new_tree(&mut runner).expect("strategy").current()
}

/// Monotone index mapping (keeps shrinking meaningful): u16 fraction -> 0..len
pub fn idx16(frac: u16, len: usize) -> usize
{
    if len == 0
    {
        return 0;
    }
    ((frac as usize) * len) >> 16
}
