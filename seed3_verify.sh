#!/bin/bash
# seed3_verify.sh <area> ...: confirm an area-focused seeded change (/tmp/seed3-<area>), store it under
# /verif/seeded/area-<area>/, run the check of the property it names (and, if that misses, all 18) against it.
set -u
for A in "$@"; do
W=/tmp/seed3-$A
OUT=/verif/seeded/area-$A
mkdir -p $OUT
echo "=== $A"
cd $W || exit 2
git diff -- src > patch.diff
[ -s patch.diff ] || { echo "empty patch"; continue; }
cp patch.diff demo.sh meta.json $OUT/ 2>/dev/null
ID=$(python3 -c "import json;print(json.load(open('$OUT/meta.json')).get('property','C00')[:3])")
( cargo test --offline 2>&1 | grep -E "^test result" | tr '\n' ' ' ) > $OUT/tests_with_change.txt
grep -c "ok\." $OUT/tests_with_change.txt >/dev/null; cat $OUT/tests_with_change.txt | grep -o "[0-9]* passed; [0-9]* failed" | tr '\n' ' '; echo
cargo build --offline >/dev/null 2>&1
bash ./demo.sh > $OUT/demo_with_change.log 2>&1; rc_with=$?
git apply -R patch.diff; cargo build --offline >/dev/null 2>&1
bash ./demo.sh > $OUT/demo_without_change.log 2>&1; rc_without=$?
git apply patch.diff
echo "property named: $ID; demo rc with change=$rc_with without=$rc_without"
cd /verif
git -C /repo apply $OUT/patch.diff || { echo "patch does not apply to /repo"; continue; }
VERIF_SEED=${VERIF_SEED:-1} ./check $ID quick > $OUT/check_quick.log 2>&1; rc_check=$?
echo "own check $ID rc=$rc_check: $(grep -E '^\[' $OUT/check_quick.log | head -2 | cut -c1-260)"
others=""
if [ $rc_check -ne 1 ]; then
  for p in C01 C02 C03 C04 C05 C06 C07 C08 C09 C10 C11 C12 C13 C14 C15 C16 C17 C18; do
    [ $p = $ID ] && continue
    VERIF_SEED=1 BLVERIF_NO_FUZZ=1 ./check $p quick > $OUT/check_$p.log 2>&1; r=$?
    [ $r -eq 1 ] && others="$others $p"
  done
  echo "  other checks that flag it:$others"
fi
git -C /repo checkout -- .
rm -f /verif/replays/*/found-*
python3 - <<PY
import json,os
m=json.load(open("$OUT/meta.json")) if os.path.exists("$OUT/meta.json") else {}
m["confirmed"]={"tests_with_change":open("$OUT/tests_with_change.txt").read().strip(),"demo_rc_with_change":$rc_with,"demo_rc_without_change":$rc_without,"own_quick_check_rc":$rc_check,"other_checks_flagging":"$others".split(),"what_was_run":"cargo test --offline (with change); demo.sh with and without the change (git apply -R / git apply); git -C /repo apply patch.diff; ./check $ID quick (all 18 when missed); git -C /repo checkout -- ."}
json.dump(m,open("$OUT/meta.json","w"),indent=1)
PY
done
