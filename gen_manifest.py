#!/usr/bin/env python3
"""Regenerates MANIFEST.json from the table below (kept in one place so that it stays valid)."""
import json, subprocess
REPO_COMMITS = subprocess.run(["git","-C","/repo","log","--format=%H %s"],capture_output=True,text=True).stdout.strip().split("\n")
hook_commits=[l.split()[0] for l in REPO_COMMITS if "verif-hooks" in l]
P = {
 "C01": ("exploration","model-based PBT through the executable: generated trees x ID classes x lock modes, oracle over decomposed insertions","5 C01",
         "Exploration of generated trees/ID multisets/lock modes (incl. u32 boundary classes) through the real executable; oracle is independent arithmetic over the actually inserted IDs. Right level: the property quantifies over trees and existing ID values; no finite enumeration exists."),
 "C02": ("exploration","stateful model-based PBT (history of developer edits and faulted runs vs ghost map ID->statement)","5 C02",
         "Exploration of generated histories with injected I/O failures, stop signals and kills at generated operation boundaries; invariant checked after every step against the real tool."),
 "C03": ("exploration","PBT with exact round-trip oracle (insertion decomposition) over corpus, model and mutated contents","5 C03",
         "Exploration over real-code corpus, rendered statement models and byte/char/token mutations, through the executable; the oracle (exact insertion decomposition) decides each file completely."),
 "C05": ("exploration","differential PBT: --check report vs positions of the edit run's insertions (position model), plus reference model","5 C05",
         "Exploration; differential between the two code paths on identical trees plus an independent line/column model and, for modelled files, the reference model's Missing set."),
 "C06": ("exploration","PBT of run sequences edit -> check -> edit with parser read-back of every insertion","5 C06",
         "Exploration over valid-usage trees (model and corpus); fixpoint and read-back oracles."),
 "C07": ("fault_enumeration","per generated tree: exhaustive kill / errno injection at every counted filesystem operation (LD_PRELOAD), untouched-or-complete oracle","5 C07",
         "Fault enumeration: all operation boundaries x all applicable errnos per generated tree, trees themselves sampled."),
 "C08": ("fault_enumeration","per generated tree: all single write-path faults + generated multi-fault plans + real cross-filesystem TMPDIR; exit-status/--check oracle","5 C08",
         "Fault enumeration on the write path per generated tree (trees sampled), plus a real EXDEV configuration."),
 "C10": ("exploration","grammar-based PBT against a reference model of canonical statements (in-process parser hook + executable)","5 C10",
         "Exploration of the product space of statement features, compared with an independent reference model; in-process for volume, through the executable for wiring."),
 "C11": ("exploration","grammar-based PBT with decoy injection against the reference model","5 C11",
         "Exploration of decoy placements among real statements; model-based oracle in-process and through the executable."),
 "C12": ("exploration","bounded-exhaustive enumeration of message prefixes + complete single-edit near-miss family + grammar PBT vs hand-written predicate","5 C12",
         "Bounded exhaustive enumeration (stated heads x all tails up to the bound, and the complete near-miss family) plus generated longer strings; oracle is a hand-written predicate of the documented rule."),
 "C13": ("exploration","grammar-based PBT over the key-value grammar against the reference model","5 C13",
         "Exploration of structured-mode statements; reference-model oracle on token order, separators, recognition and unusable handling."),
 "C14": ("exploration","grammar-based PBT over directive placements against an independent line-based directive model","5 C14",
         "Exploration of preamble kinds x layouts; independent directive scanner as the oracle."),
 "C17": ("exploration","PBT through the executable over corpus/model/mutated/invalid-UTF-8/large contents (no panic, unreadable file skipped)","5 C17",
         "Exploration: raw content sources with Unicode/invalid-UTF-8 injection through both modes of the executable. Hangs are reported as inconclusive, never as violations."),
 "C18": ("fault_enumeration","per generated tree: SIGTERM and SIGINT delivered at every counted operation boundary (LD_PRELOAD), clean-stop oracle","5 C18",
         "Signal enumeration over all operation boundaries per generated tree and mode; trees sampled."),
}
NOT_YET = {}
P.update({
 "C04": ("exploration","PBT over trees x configurations x lock states x broken set-ups x fault plans; strict sandbox snapshot + no-mutating-call-in-trace oracle","5 C04",
         "Exploration of generated trees/configurations incl. failing and interrupted runs; two independent oracles (snapshot with mtime/inode, libc-level call trace)."),
 "C09": ("translation_validation","generated programs edited by Breadlog; original and edited body compiled with rustc against log(kv) and executed; record sequences compared","5 C09",
         "Translation validation of generated programs: both versions are compiled and run, the emitted log records are compared field by field."),
 "C15": ("exploration","PBT over directory layouts / extension lists / path forms / invocation directories against an independent scope rule","5 C15",
         "Exploration of generated layouts with a canary statement in every regular file; independent scope model as the oracle."),
 "C16": ("exploration","complete enumeration of the configuration matrix (switch values x lock states x modes x error points) against a reference model of the guide, with differential lock-absent baselines","5 C16",
         "Every point of the stated configuration matrix is visited (thorough: 20 tree variants per point); oracle is a reference model of the documented semantics plus differential baselines."),
})
checks=[]
for pid,(cat,tech,ref,text) in sorted(P.items()):
    checks.append({
      "property_id": pid,
      "quick_cmd": f"./check {pid} quick",
      "thorough_cmd": f"./check {pid} thorough",
      "evidence_file": f"/verif/evidence/{pid}.json",
      "replay_cmd_template": f"./check {pid} quick --replay {{path}}",
      "engine": "blverif",
      "level_claimed": {"category": cat, "text": text, "design_ref": "DESIGN.md section "+ref},
      "level_note": "Trusted: the harness's reference models/oracles (harness/src/oracle.rs, gen.rs, model_check.rs), the LD_PRELOAD interposer seeing every libc-level filesystem call of the dynamically linked release build, proptest's generators. Subject: the release executable rebuilt from /repo's working tree (+ the library with --features verif-hooks for in-process parts).",
      "technique": tech,
    })
m={
 "version":1,
 "setup_cmd":"./build.sh",
 "hooks":{"guard":"verif-hooks (cargo feature)","enable":"cargo build --features verif-hooks (the harness depends on /repo with features=[\"verif-hooks\"]; the executable under test is built WITHOUT the feature)",
          "baseline_off_cmd":"cd /repo && cargo test --workspace --no-fail-fast --offline","source_commits":hook_commits,"add_only":True},
 "engines":[
   {"name":"blverif","path":"/verif/harness","serves_properties":sorted(P.keys()),"kind_free_text":"Rust binary: proptest 1.11 TestRunner in 16 worker threads with derived seeds; generators, reference models, oracles, CLI runner, snapshots, evidence, known-findings matcher, replay"},
   {"name":"fsshim","path":"/verif/shim/fsshim.c","serves_properties":["C02","C04","C07","C08","C18"],"kind_free_text":"LD_PRELOAD interposer: traces filesystem calls, counts operations under the sandbox roots, executes fail/short/kill/sig plans at a chosen operation"},
 ],
 "checks":checks,
 "not_applicable":[{"property_id":k,"reason":v} for k,v in sorted(NOT_YET.items())],
 "notes":"Driver: ./check <ID> <quick|thorough> [--replay FILE]; exit 0 held / 1 VIOLATION / 2 inconclusive (build failure, watchdog). VERIF_SEED selects the PRNG stream. Known findings: known_findings.json (never written at run time). Regression inputs: replays/<ID>/*.json are replayed first on every run.",
}
json.dump(m,open("/verif/MANIFEST.json","w"),indent=1)
print("ok",len(checks))
