#!/bin/bash
# seed_verify_split.sh A|B <ID>...: seed_verify.sh in two phases, so that phase A (tests with the change, demo with and
# without it - all inside the agent's worktree) can run for several IDs in parallel and only phase B (apply to /repo,
# run the property's quick check, restore /repo) is serial.
set -u
PH=$1; shift
for ID in "$@"; do
W=${SEEDDIR:-/tmp/seed}-$ID
OUT=/verif/seeded/$ID${SEEDSUFFIX:-}
mkdir -p $OUT
if [ $PH = A ]; then
  cd $W || exit 2
  git diff -- src > patch.diff
  [ -s patch.diff ] || { echo "$ID empty patch"; continue; }
  cp patch.diff demo.sh meta.json $OUT/ 2>/dev/null
  ( cargo test --offline 2>&1 | grep -E "^test result" | tr '\n' ' ' ) > $OUT/tests_with_change.txt
  cargo build --offline >/dev/null 2>&1
  bash ./demo.sh > $OUT/demo_with_change.log 2>&1; rc_with=$?
  git apply -R patch.diff
  cargo build --offline >/dev/null 2>&1
  bash ./demo.sh > $OUT/demo_without_change.log 2>&1; rc_without=$?
  git apply patch.diff
  echo "$rc_with $rc_without" > $OUT/.rcs
  echo "$ID: $(cat $OUT/tests_with_change.txt) demo rc with change=$rc_with without=$rc_without"
else
  cd /verif
  read rc_with rc_without < $OUT/.rcs
  git -C /repo apply $OUT/patch.diff || { echo "$ID patch does not apply to /repo"; continue; }
  VERIF_SEED=${VERIF_SEED:-1} ./check $ID quick > $OUT/check_quick.log 2>&1; rc_check=$?
  git -C /repo checkout -- .
  echo "$ID own check rc=$rc_check: $(grep -E '^\[' $OUT/check_quick.log | head -3 | cut -c1-300)"
  python3 - <<PY
import json,os
m=json.load(open("$OUT/meta.json")) if os.path.exists("$OUT/meta.json") else {}
m["confirmed"]={"tests_with_change":open("$OUT/tests_with_change.txt").read().strip(),"demo_rc_with_change":$rc_with,"demo_rc_without_change":$rc_without,"own_quick_check_rc":$rc_check,"what_was_run":"cargo test --offline (with change); demo.sh with and without the change (git apply -R / git apply); git -C /repo apply patch.diff; ./check $ID quick; git -C /repo checkout -- ."}
json.dump(m,open("$OUT/meta.json","w"),indent=1)
PY
  rm -f $OUT/.rcs
fi
done
